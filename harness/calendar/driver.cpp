// C11 driver: calendar conversions and calendar arithmetic of etl::chrono.
//  * conversions: Gregorian-successor step lemmas over the whole sys_days range of years -32767..32767 plus anchor
//    dates (the "day-by-day walker", every step taken at once by the solver), direct comparison with libstdc++'s
//    std::chrono (compiled through the same clang -> IR -> C pipeline), era-split direct round trips;
//  * ok()/is_leap/last day/weekday: against std::chrono and against the calendar rules written out below;
//  * arithmetic: every operator against std::chrono, operands symbolic over their full range.
// No tetl header is included here.
#include "vf.h"
#ifdef VF_NO_FUNCTIONAL
// C02 runs: vf.h turns vf_assert into a two-parameter macro, which cannot take conditions containing braced initialisers with commas.
// Same meaning (evaluate the condition, which contains the kernel calls; assert nothing), as a function call.
#undef vf_assert
static inline void vf_nofunc_sink(bool, char const*) {}
#define vf_assert(...) vf_nofunc_sink(__VA_ARGS__)
#endif
#include <chrono>
#include <stdint.h>
namespace sc = std::chrono;
typedef unsigned long long u64;

extern "C" {
u64 k_civil(int32_t); u64 k_civil_local(int32_t); bool k_civil_ok(int32_t);
int32_t k_days(int, unsigned, unsigned); int32_t k_days_local(int, unsigned, unsigned); int32_t k_roundtrip(int32_t); u64 k_roundtrip_ymd(int, unsigned, unsigned);
unsigned k_wd_from_days(int32_t); unsigned k_wd_from_local(int32_t); unsigned k_wd_of_date(int, unsigned, unsigned); unsigned k_wd_ctor(unsigned);
bool k_year_ok(int); int k_year_value(int); bool k_is_leap(int); int k_year_minmax(unsigned); bool k_month_ok(unsigned); bool k_day_ok(unsigned);
bool k_ym_ok(int, unsigned); bool k_ymd_ok(int, unsigned, unsigned); bool k_md_ok(unsigned, unsigned); bool k_mdl_ok(unsigned);
bool k_ymdl_ok(int, unsigned); unsigned k_ymdl_day(int, unsigned); u64 k_ymd_from_ymdl(int, unsigned);
bool k_wdi_ok(unsigned, unsigned); unsigned k_wdi_fields(unsigned, unsigned); bool k_wdl_ok(unsigned); bool k_mwd_ok(unsigned, unsigned, unsigned); bool k_mwdl_ok(unsigned, unsigned);
bool k_ymw_ok(int, unsigned, unsigned, unsigned);
unsigned k_month_op(unsigned, unsigned, int32_t); int32_t k_month_diff(unsigned, unsigned); unsigned k_month_rel(unsigned, unsigned);
unsigned k_weekday_op(unsigned, unsigned, int32_t); int32_t k_weekday_diff(unsigned, unsigned); unsigned k_weekday_rel(unsigned, unsigned);
unsigned k_year_op(unsigned, int, int32_t); int32_t k_year_diff(int, int); unsigned k_year_rel(int, int);
unsigned k_day_op(unsigned, unsigned, int32_t); int32_t k_day_diff(unsigned, unsigned); unsigned k_day_rel(unsigned, unsigned);
u64 k_ym_op(unsigned, int, unsigned, int32_t); u64 k_ymd_op(unsigned, int, unsigned, unsigned, int32_t); u64 k_ymdl_op(unsigned, int, unsigned, int32_t);
u64 k_ymw_op(unsigned, int, unsigned, unsigned, unsigned, int32_t);
}

// ------------------------------------------------------------------------------------------------ calendar rules (model)
#include "model.h"
static_assert(sc::sys_days{sc::year{YMIN} / 1 / 1}.time_since_epoch().count() == ZMIN);
static_assert(sc::sys_days{sc::year{YMAX} / 12 / 31}.time_since_epoch().count() == ZMAX);
static Date unpack(u64 p) { return {int(int16_t(p & 0xffff)), unsigned(p >> 16 & 0xff), unsigned(p >> 24 & 0xff)}; }
static u64 pack(int y, unsigned m, unsigned d) { return u64(uint16_t(y)) | u64(m) << 16 | u64(d) << 24; }
static u64 pk(sc::year y) { return u64(uint16_t(int(y))); }
static u64 pk(sc::year_month const& x) { return pk(x.year()) | u64(unsigned(x.month())) << 16; }
static u64 pk(sc::year_month_day const& x) { return pk(x.year()) | u64(unsigned(x.month())) << 16 | u64(unsigned(x.day())) << 24; }
static u64 pk(sc::year_month_day_last const& x) { return pk(x.year()) | u64(unsigned(x.month())) << 16 | u64(unsigned(x.month_day_last().month())) << 24; }
static u64 pk(sc::year_month_weekday const& x) { return pk(x.year()) | u64(unsigned(x.month())) << 16 | u64(x.weekday().c_encoding()) << 24 | u64(x.index()) << 32; }

// symbolic inputs
static int nd_year16() { return int(int16_t(vf_nd_u16())); }                                          // every int16 value (incl. the !ok() one)
static int nd_year_ok() { int y = nd_year16(); vf_assume(y >= YMIN); return y; }                      // year::ok()
static unsigned nd_byte() { unsigned v = vf_nd_u8(); vf_assume(v < 255); return v; }                  // month(unsigned)/day(unsigned) document value < 255
static unsigned nd_month_ok() { unsigned m = vf_nd_u8(); vf_assume(m >= 1 && m <= 12); return m; }
static unsigned nd_wd8() { return vf_nd_u8(); }                                                       // weekday(unsigned): any value <= 255
static unsigned nd_wd_ok() { unsigned w = vf_nd_u8(); vf_assume(w <= 7); return w; }                  // 7 is accepted and means Sunday
static Date nd_valid_date() { Date a{nd_year_ok(), nd_month_ok(), unsigned(vf_nd_u8())}; vf_assume(a.d >= 1 && a.d <= mlen(a.y, a.m)); return a; }
static int32_t nd_z() { int32_t z = vf_nd_i32(); vf_assume(z >= ZMIN && z <= ZMAX); return z; }
// Era split (enumerated by the runner, -DERA=k, k in -82..81): the 400-year cycle k of the proleptic Gregorian calendar,
// days [0000-03-01 + k*146097, +146097) resp. years [400k, 400k+400). Without -DERA a query ranges over everything.
#ifdef ERA
static void era_z(int32_t z) { vf_assume((long long)z >= -719468LL + (long long)(ERA) * 146097 && (long long)z < -719468LL + ((long long)(ERA) + 1) * 146097); }
static void era_y(int y) { vf_assume(y >= (ERA) * 400 && y < ((ERA) + 1) * 400); }
#else
static void era_z(int32_t) {}
static void era_y(int) {}
#endif

// ------------------------------------------------------------------------------------------------ L1/L2: civil_from_days
// L1: civil(z+1) == succ(civil(z)) for every z in [ZMIN, ZMAX)
Q q_civil_step()
{
    int32_t z = vf_nd_i32(); vf_assume(z >= ZMIN && z < ZMAX);
    Date a = unpack(k_civil(z)), b = unpack(k_civil(z + 1)), e = succ(a);
    if (a.d == mlen(a.y, a.m)) vf_witness("month end"); if (a.m == 12 && a.d == 31) vf_witness("year end"); if (a.m == 2 && a.d == 29) vf_witness("leap day");
    vf_assert(b.y == e.y && b.m == e.m && b.d == e.d, "civil_from_days(z+1) is the Gregorian successor of civil_from_days(z)");
}
// every produced date exists, lies in the year range and ok() says so
Q q_civil_valid()
{
    int32_t z = nd_z(); Date a = unpack(k_civil(z));
    vf_assert(valid(a.y, a.m, a.d), "civil_from_days(z) is an existing date in years -32767..32767");
}
Q q_civil_ok() { int32_t z = nd_z(); vf_assert(k_civil_ok(z), "year_month_day{sys_days{z}}.ok()"); }
// L2: anchors (base cases of the induction; first and last day of the range, epoch, era boundary, leap days)
Q q_civil_anchors()
{
    vf_assert(k_civil(ZMIN) == pack(-32767, 1, 1), "civil(ZMIN) == -32767-01-01");
    vf_assert(k_civil(ZMAX) == pack(32767, 12, 31), "civil(ZMAX) == 32767-12-31");
    vf_assert(k_civil(0) == pack(1970, 1, 1), "civil(0) == 1970-01-01");
    vf_assert(k_civil(-719468) == pack(0, 3, 1), "civil(-719468) == 0000-03-01");
    vf_assert(k_civil(-719469) == pack(0, 2, 29), "civil(-719469) == 0000-02-29");
    vf_assert(k_civil(11016) == pack(2000, 2, 29), "civil(11016) == 2000-02-29");
    vf_assert(k_civil(-25508) == pack(1900, 3, 1), "civil(-25508) == 1900-03-01");
    vf_assert(k_civil(-25509) == pack(1900, 2, 28), "civil(-25509) == 1900-02-28");
    vf_assert(k_civil(-719529) == pack(-1, 12, 31), "civil(-719529) == -0001-12-31");
    vf_assert(k_civil(-865566) == pack(-400, 2, 29), "civil(-865566) == -0400-02-29");
}
// the same date as libstdc++ produces, directly (Hinnant vs Neri-Schneider: no verdict on the whole range within 300 s, ~100-240 s per 400-year era;
// the runner asks for era 4 in the thorough tier; the whole-range claim rests on L1 + L2)
Q q_civil_std()
{
    int32_t z = nd_z(); era_z(z);
    vf_assert(k_civil(z) == pk(sc::year_month_day{sc::sys_days{sc::days{z}}}), "year_month_day{sys_days} == std::chrono");
}
#ifdef ZWIN
static void win_z(int32_t z) { vf_assume(z >= -(ZWIN) && z < (ZWIN)); }
#else
static void win_z(int32_t) {}
#endif
Q q_civil_local() { int32_t z = nd_z(); win_z(z); vf_assert(k_civil_local(z) == k_civil(z), "year_month_day{local_days} == year_month_day{sys_days}"); }

// ------------------------------------------------------------------------------------------------ L3: days_from_civil
Q q_days_step()
{
    Date a = nd_valid_date(); vf_assume(!(a.y == YMAX && a.m == 12 && a.d == 31));
    bool mend = a.d == mlen(a.y, a.m);
    // case split of the lemma, enumerated by the runner (-DSTEPCASE=0,1,2,3 together cover every date): 0 inside a month, 1 last day of a
    // month other than February and December, 2 last day of February (the only step on which the algorithm's March-based year changes),
    // 3 December 31
#ifdef STEPCASE
    vf_assume(STEPCASE == 0 ? !mend : STEPCASE == 1 ? (mend && a.m != 2 && a.m != 12) : STEPCASE == 2 ? (mend && a.m == 2) : (mend && a.m == 12));
#endif
#if !defined(STEPCASE)
    Date b = succ(a);
#elif STEPCASE == 0
    Date b{a.y, a.m, a.d + 1};
#elif STEPCASE == 1
    Date b{a.y, a.m + 1, 1};
#elif STEPCASE == 2
    Date b{a.y, 3, 1};
#else
    Date b{a.y + 1, 1, 1};
#endif
    { Date e = succ(a); vf_assert(b.y == e.y && b.m == e.m && b.d == e.d, "case split: b is the Gregorian successor of a"); }
#if !defined(STEPCASE) || STEPCASE == 1
    if (mend && a.m == 1) vf_witness("January 31"); if (mend && a.m == 11) vf_witness("November 30");
#endif
#if !defined(STEPCASE) || STEPCASE == 3
    if (a.m == 12 && a.d == 31) vf_witness("year end");
#endif
#if !defined(STEPCASE) || STEPCASE == 2
    if (a.m == 2 && a.d == 29) vf_witness("leap day to March 1"); if (a.m == 2 && a.d == 28 && mend) vf_witness("Feb 28 to March 1");
#endif
#if !defined(STEPCASE) || STEPCASE == 0
    if (a.m == 2 && a.d == 28 && !mend) vf_witness("Feb 28 to leap day");
#endif
    vf_assert(k_days(b.y, b.m, b.d) == k_days(a.y, a.m, a.d) + 1, "days_from_civil(succ(date)) == days_from_civil(date) + 1");
}
Q q_days_anchors()
{
    vf_assert(k_days(-32767, 1, 1) == ZMIN, "days(-32767-01-01)"); vf_assert(k_days(32767, 12, 31) == ZMAX, "days(32767-12-31)");
    vf_assert(k_days(1970, 1, 1) == 0, "days(1970-01-01) == 0"); vf_assert(k_days(0, 3, 1) == -719468, "days(0000-03-01)"); vf_assert(k_days(0, 2, 29) == -719469, "days(0000-02-29)");
    vf_assert(k_days(2000, 2, 29) == 11016, "days(2000-02-29)"); vf_assert(k_days(1900, 3, 1) == -25508, "days(1900-03-01)"); vf_assert(k_days(1900, 2, 28) == -25509, "days(1900-02-28)");
    vf_assert(k_days(-1, 12, 31) == -719529, "days(-0001-12-31)"); vf_assert(k_days(-400, 2, 29) == -865566, "days(-0400-02-29)");
}
Q q_days_range()
{
    Date a = nd_valid_date(); int32_t z = k_days(a.y, a.m, a.d);
    vf_assert(z >= ZMIN && z <= ZMAX, "sys_days of an existing date lies in [ZMIN, ZMAX]");
}
Q q_days_std()
{
    Date a = nd_valid_date(); era_y(a.y);
    vf_assert(k_days(a.y, a.m, a.d) == sc::sys_days{sc::year{a.y} / sc::month{a.m} / sc::day{a.d}}.time_since_epoch().count(), "sys_days{year_month_day} == std::chrono");
}
Q q_days_local() { Date a = nd_valid_date(); era_y(a.y); vf_assert(k_days_local(a.y, a.m, a.d) == k_days(a.y, a.m, a.d), "local_days{ymd} == sys_days{ymd}"); }

// ------------------------------------------------------------------------------------------------ L4: direct round trips, one 400-year era per query
Q q_roundtrip_era()
{
    int32_t z = nd_z(); era_z(z);
    vf_assert(k_roundtrip(z) == z, "sys_days{year_month_day{sys_days{z}}} == z");
}
Q q_roundtrip_ymd_era()
{
    Date a = nd_valid_date(); era_y(a.y);
    vf_assert(k_roundtrip_ymd(a.y, a.m, a.d) == pack(a.y, a.m, a.d), "year_month_day{sys_days{ymd}} == ymd");
}

// ------------------------------------------------------------------------------------------------ weekday of a day number / date
Q q_wd_step()
{
    int32_t z = vf_nd_i32(); vf_assume(z >= ZMIN && z < ZMAX);
    unsigned a = k_wd_from_days(z), b = k_wd_from_days(z + 1);
    if (a == 6) vf_witness("saturday to sunday");
    vf_assert(a <= 6, "weekday{sys_days}.c_encoding() in 0..6"); vf_assert(b == (a == 6 ? 0 : a + 1), "weekday(z+1) follows weekday(z)");
}
Q q_wd_anchors()
{
    vf_assert(k_wd_from_days(0) == 4, "1970-01-01 is a Thursday"); vf_assert(k_wd_from_days(-4) == 0, "1969-12-28 is a Sunday"); vf_assert(k_wd_from_days(-5) == 6, "1969-12-27 is a Saturday");
    vf_assert(k_wd_from_days(11016) == 2, "2000-02-29 is a Tuesday"); vf_assert(k_wd_from_days(ZMIN) == sc::weekday{sc::sys_days{sc::days{ZMIN}}}.c_encoding(), "weekday(ZMIN) == std");
}
// all int32 day numbers for which tp + 5 does not overflow (a superset of the calendar range)
Q q_wd_std()
{
    int32_t z = vf_nd_i32(); vf_assume(z <= INT32_MAX - 8); unsigned r = k_wd_from_days(z);
    vf_assert(r == sc::weekday{sc::sys_days{sc::days{z}}}.c_encoding(), "weekday{sys_days} == std::chrono"); vf_assert(r == wd_model(z), "weekday{sys_days{z}} == (z + 4) mod 7");
}
Q q_wd_local() { int32_t z = nd_z(); vf_assert(k_wd_from_local(z) == k_wd_from_days(z), "weekday{local_days} == weekday{sys_days}"); }
// weekday of a date. The composition weekday{sys_days{ymd}} against (days_from_civil + 4) mod 7 on etl's own day number (which L3 pins down),
// and directly against std::chrono on a window of years (-DYWIN=n: 1970-n .. 1970+n-1; both libraries' day-number algorithms in one formula is
// beyond the solvers for a whole era)
#ifdef YWIN
static void win_y(int y) { vf_assume(y >= 1970 - (YWIN) && y < 1970 + (YWIN)); }
#else
static void win_y(int) {}
#endif
Q q_wd_of_date()
{
    Date a = nd_valid_date(); era_y(a.y);
    vf_assert(k_wd_of_date(a.y, a.m, a.d) == wd_model(k_days(a.y, a.m, a.d)), "weekday{sys_days{ymd}} == (sys_days{ymd} + 4) mod 7");
}
Q q_wd_of_date_std()
{
    Date a = nd_valid_date(); win_y(a.y);
    vf_assert(k_wd_of_date(a.y, a.m, a.d) == sc::weekday{sc::sys_days{sc::year{a.y} / sc::month{a.m} / sc::day{a.d}}}.c_encoding(), "weekday of a date == std::chrono");
}
Q q_wd_ctor()
{
    unsigned w = nd_wd8(); sc::weekday s{w};
    vf_assert(k_wd_ctor(w) == (s.c_encoding() | s.iso_encoding() << 8 | unsigned(s.ok()) << 16), "weekday(unsigned): c_encoding/iso_encoding/ok == std::chrono");
    vf_assert(s.ok() == (w <= 7), "weekday ok() exactly for 0..7");
}

// ------------------------------------------------------------------------------------------------ ok(), is_leap, last day of month
Q q_ok_year()
{
    int y = nd_year16();
    vf_assert(k_year_ok(y) == sc::year{y}.ok() && k_year_ok(y) == (y != -32768), "year::ok"); vf_assert(k_year_value(y) == y, "int{year{y}} == y");
    vf_assert(k_year_minmax(0) == -32767 && k_year_minmax(1) == 32767, "year::min/max");
}
Q q_is_leap() { int y = nd_year16(); bool r = k_is_leap(y); if (r) vf_witness("leap"); vf_assert(r == sc::year{y}.is_leap(), "is_leap == std::chrono"); vf_assert(r == leap(y), "is_leap == Gregorian rule"); }
Q q_ok_month() { unsigned m = nd_byte(); vf_assert(k_month_ok(m) == sc::month{m}.ok() && k_month_ok(m) == (m >= 1 && m <= 12), "month::ok"); }
Q q_ok_day() { unsigned d = nd_byte(); vf_assert(k_day_ok(d) == sc::day{d}.ok() && k_day_ok(d) == (d >= 1 && d <= 31), "day::ok"); }
Q q_ok_ym() { int y = nd_year16(); unsigned m = nd_byte(); vf_assert(k_ym_ok(y, m) == (sc::year{y} / sc::month{m}).ok(), "year_month::ok == std::chrono"); }
Q q_ok_ymd()
{
    int y = nd_year16(); unsigned m = nd_byte(), d = nd_byte(); bool r = k_ymd_ok(y, m, d);
    if (r && m == 2 && d == 29) vf_witness("Feb 29 accepted"); if (!r && m == 2 && d == 29) vf_witness("Feb 29 rejected");
    vf_assert(r == sc::year_month_day{sc::year{y}, sc::month{m}, sc::day{d}}.ok(), "year_month_day::ok == std::chrono");
    vf_assert(r == valid(y, m, d), "year_month_day::ok exactly for dates that exist");
}
Q q_ok_md()
{
    unsigned m = nd_byte(), d = nd_byte(); bool r = k_md_ok(m, d);
    vf_assert(r == sc::month_day{sc::month{m}, sc::day{d}}.ok(), "month_day::ok == std::chrono"); vf_assert(r == (m >= 1 && m <= 12 && d >= 1 && d <= mlen(2000, m)), "month_day::ok: day exists in some year");
}
Q q_ok_mdl() { unsigned m = nd_byte(); vf_assert(k_mdl_ok(m) == sc::month_day_last{sc::month{m}}.ok(), "month_day_last::ok == std::chrono"); }
Q q_ok_ymdl() { int y = nd_year16(); unsigned m = nd_byte(); vf_assert(k_ymdl_ok(y, m) == sc::year_month_day_last{sc::year{y}, sc::month_day_last{sc::month{m}}}.ok(), "year_month_day_last::ok == std::chrono"); }
// last day of month: std leaves day() unspecified when !ok()
Q q_ymdl_day()
{
    int y = nd_year_ok(); unsigned m = nd_month_ok(); unsigned r = k_ymdl_day(y, m);
    if (r == 29) vf_witness("29"); if (r == 28) vf_witness("28");
    vf_assert(r == unsigned(sc::year_month_day_last{sc::year{y}, sc::month_day_last{sc::month{m}}}.day()), "year_month_day_last::day == std::chrono"); vf_assert(r == mlen(y, m), "last day of month == Gregorian rule");
    vf_assert(k_ymd_from_ymdl(y, m) == pack(y, m, mlen(y, m)), "year_month_day{year_month_day_last}");
}
Q q_ok_wdi()
{
    unsigned w = nd_wd8(), i = vf_nd_u8(); sc::weekday_indexed s{sc::weekday{w}, i};
    vf_assert(k_wdi_ok(w, i) == s.ok(), "weekday_indexed::ok == std::chrono"); vf_assert(k_wdi_ok(w, i) == (w <= 7 && i >= 1 && i <= 5), "weekday_indexed::ok: weekday ok and index 1..5");
    vf_assert(k_wdi_fields(w, i) == (s.weekday().c_encoding() | s.index() << 8), "weekday_indexed fields == std::chrono");
}
Q q_ok_wdl() { unsigned w = nd_wd8(); vf_assert(k_wdl_ok(w) == sc::weekday_last{sc::weekday{w}}.ok(), "weekday_last::ok == std::chrono"); }
Q q_ok_mwd() { unsigned m = nd_byte(), w = nd_wd8(), i = vf_nd_u8(); vf_assert(k_mwd_ok(m, w, i) == sc::month_weekday{sc::month{m}, sc::weekday_indexed{sc::weekday{w}, i}}.ok(), "month_weekday::ok == std::chrono"); }
Q q_ok_mwdl() { unsigned m = nd_byte(), w = nd_wd8(); vf_assert(k_mwdl_ok(m, w) == sc::month_weekday_last{sc::month{m}, sc::weekday_last{sc::weekday{w}}}.ok(), "month_weekday_last::ok == std::chrono"); }
// ok() of the 5th weekday of a month needs the calendar: first weekday of the month and its length.
// Oracle: the rule itself, with the weekday of the first of the month taken from etl's weekday-of-date (pinned down by L3 and the
// weekday step lemma); everything that does not need the calendar is also compared with std::chrono directly.
Q q_ok_ymw()
{
    int y = nd_year16(); unsigned m = nd_byte(), w = nd_wd8(), i = vf_nd_u8(); era_y(y); bool r = k_ymw_ok(y, m, w, i);
    bool fields = y != -32768 && m >= 1 && m <= 12 && w <= 7 && i >= 1 && i <= 5;
    if (!fields) { vf_witness("some field not ok"); vf_assert(!r, "year_month_weekday::ok false when a field is not ok"); }
    else if (i <= 4) { vf_witness("index 1..4"); vf_assert(r, "year_month_weekday::ok true for index 1..4"); }
    else {
        unsigned first = k_wd_of_date(y, m, 1), dd = (w % 7 + 7 - first) % 7 + 29; // day of the month of the fifth weekday w
        if (dd <= mlen(y, m)) vf_witness("fifth weekday exists"); else vf_witness("fifth weekday does not exist");
        vf_assert(r == (dd <= mlen(y, m)), "year_month_weekday::ok for index 5 exactly when that day exists");
    }
    if (!(fields && i == 5)) vf_assert(r == sc::year_month_weekday{sc::year{y}, sc::month{m}, sc::weekday_indexed{sc::weekday{w}, i}}.ok(), "year_month_weekday::ok == std::chrono (index != 5)");
}
Q q_ok_ymw_std()
{
    int y = nd_year16(); unsigned m = nd_byte(), w = nd_wd8(), i = vf_nd_u8(); win_y(y); bool r = k_ymw_ok(y, m, w, i);
    if (r && i == 5) vf_witness("fifth weekday exists"); if (!r && i == 5 && m >= 1 && m <= 12 && w <= 7) vf_witness("fifth weekday does not exist");
    vf_assert(r == sc::year_month_weekday{sc::year{y}, sc::month{m}, sc::weekday_indexed{sc::weekday{w}, i}}.ok(), "year_month_weekday::ok == std::chrono");
}

// ------------------------------------------------------------------------------------------------ month / weekday / year / day arithmetic
// op codes: 0 x+d 1 d+x 2 x-d 3 x+=d 4 x-=d 5 ++x 6 x++ 7 --x 8 x--  (year: 9 +x 10 -x)
static unsigned std_month_op(unsigned op, unsigned m0, int32_t c)
{
    sc::month m{m0}, r{m0};
    switch (op) {
    case 0: r = m + sc::months{c}; break; case 1: r = sc::months{c} + m; break; case 2: r = m - sc::months{c}; break;
    case 3: r = (m += sc::months{c}); break; case 4: r = (m -= sc::months{c}); break;
    case 5: r = ++m; break; case 6: r = m++; break; case 7: r = --m; break; default: r = m--; break;
    }
    return unsigned(r) | unsigned(m) << 8;
}
static unsigned std_weekday_op(unsigned op, unsigned w0, int32_t c)
{
    sc::weekday w{w0}, r{w0};
    switch (op) {
    case 0: r = w + sc::days{c}; break; case 1: r = sc::days{c} + w; break; case 2: r = w - sc::days{c}; break;
    case 3: r = (w += sc::days{c}); break; case 4: r = (w -= sc::days{c}); break;
    case 5: r = ++w; break; case 6: r = w++; break; case 7: r = --w; break; default: r = w--; break;
    }
    return r.c_encoding() | w.c_encoding() << 8;
}
static unsigned std_year_op(unsigned op, int y0, int32_t c)
{
    sc::year y{y0}, r{y0};
    switch (op) {
    case 0: r = y + sc::years{c}; break; case 1: r = sc::years{c} + y; break; case 2: r = y - sc::years{c}; break;
    case 3: r = (y += sc::years{c}); break; case 4: r = (y -= sc::years{c}); break;
    case 5: r = ++y; break; case 6: r = y++; break; case 7: r = --y; break; case 8: r = y--; break; case 9: r = +y; break; default: r = -y; break;
    }
    return unsigned(pk(r)) | unsigned(pk(y)) << 16;
}
static unsigned std_day_op(unsigned op, unsigned d0, int32_t c)
{
    sc::day d{d0}, r{d0};
    switch (op) {
    case 0: r = d + sc::days{c}; break; case 1: r = sc::days{c} + d; break; case 2: r = d - sc::days{c}; break;
    case 3: r = (d += sc::days{c}); break; case 4: r = (d -= sc::days{c}); break;
    case 5: r = ++d; break; case 6: r = d++; break; case 7: r = --d; break; default: r = d--; break;
    }
    return unsigned(r) | unsigned(d) << 8;
}

// month: the standard defines month +- months for every stored value by the modulo formula; operands: value 0..254, months full int32
template <unsigned OP> static void month_op()
{
    unsigned m = nd_byte(); int32_t c = OP <= 4 ? vf_nd_i32() : 1;
    // etl computes ms.count() - 1 and -ms in the 32-bit Rep: overflows for months{INT32_MIN}; libstdc++ (64-bit Rep) is exact
    VF_KNOWN(C11_month_months_int32_min, OP <= 4 && c == INT32_MIN);
    unsigned a = k_month_op(OP, m, c), e = std_month_op(OP, m, c);
    unsigned res = (OP == 6 || OP == 8) ? e >> 8 : e & 0xff; // the moved month
    if constexpr (OP == 0 || OP == 1 || OP == 3 || OP == 5 || OP == 6) if (m >= 1 && m <= 12 && res < m) vf_witness("wraps past December");
    if constexpr (OP == 2 || OP == 4 || OP == 7 || OP == 8) if (m >= 1 && m <= 12 && res > m) vf_witness("wraps below January");
    vf_assert((a & 0xff) == (e & 0xff), "month arithmetic: returned value == std::chrono"); vf_assert((a >> 8) == (e >> 8), "month arithmetic: object afterwards == std::chrono");
    if (m >= 1 && m <= 12) vf_assert((a & 0xff) >= 1 && (a & 0xff) <= 12 && (a >> 8) >= 1 && (a >> 8) <= 12, "month arithmetic normalises into 1..12");
}
Q q_month_add() { month_op<0>(); } Q q_month_radd() { month_op<1>(); } Q q_month_sub() { month_op<2>(); } Q q_month_addeq() { month_op<3>(); } Q q_month_subeq() { month_op<4>(); }
Q q_month_preinc() { month_op<5>(); } Q q_month_postinc() { month_op<6>(); } Q q_month_predec() { month_op<7>(); } Q q_month_postdec() { month_op<8>(); }
Q q_month_diff()
{
    unsigned a = nd_month_ok(), b = nd_month_ok(); int32_t r = k_month_diff(a, b);
    if (a < b) vf_witness("negative difference wraps");
    vf_assert(r == (sc::month{a} - sc::month{b}).count(), "month - month == std::chrono"); vf_assert(r >= 0 && r <= 11 && (b - 1 + unsigned(r)) % 12 + 1 == a, "month - month in [0,11] and y + (x - y) == x");
}
Q q_month_rel()
{
    unsigned a = nd_byte(), b = nd_byte(); sc::month x{a}, y{b};
    vf_assert(k_month_rel(a, b) == (unsigned(x == y) | unsigned(x != y) << 1 | unsigned(x < y) << 2 | unsigned(x <= y) << 3 | unsigned(x > y) << 4 | unsigned(x >= y) << 5), "month comparisons == std::chrono");
}

// weekday: operands ok() (0..7, 7 meaning Sunday), days full int32
template <unsigned OP> static void weekday_op()
{
    unsigned w = nd_wd_ok(); int32_t c = OP <= 4 ? vf_nd_i32() : 1;
    unsigned sel = (OP == 6 || OP == 8) ? vf_nd_u8() & 1u : 2u; // postfix forms: which observable is examined (0 object, 1 returned value); others: both
    long long s = (OP == 2 || OP == 4 || OP == 7 || OP == 8) ? (long long)(w % 7) - c : (long long)(w % 7) + c; // exact sum / difference
    // operator+(weekday, days): (int32(wd) + count) % 7 is negative for a negative sum and overflows for a sum > INT32_MAX
    VF_KNOWN(C11_weekday_plus_days_negative_modulo, (OP == 0 || OP == 1) && (s < 0 || s > INT32_MAX));
    VF_KNOWN(C11_weekday_minus_days_negative_modulo, OP == 2 && (s < 0 || s > INT32_MAX));
    // operator+= / -=: the sum is truncated to uint8_t before % 7
    VF_KNOWN(C11_weekday_addeq_truncates_uint8, OP == 3 && (s < 0 || s > 255));
    VF_KNOWN(C11_weekday_subeq_truncates_uint8, (OP == 4 || OP == 7 || OP == 8) && (s < 0 || s > 255));
    // postfix ++ / -- return the new value instead of the old one
    VF_KNOWN(C11_weekday_postfix_returns_new_value, (OP == 6 || OP == 8) && sel == 1);
    unsigned a = k_weekday_op(OP, w, c), e = std_weekday_op(OP, w, c);
    if constexpr (OP <= 6) if (s > 6) vf_witness("beyond Saturday");
    if (sel != 0) vf_assert((a & 0xff) == (e & 0xff), "weekday arithmetic: returned value == std::chrono");
    if (sel != 1) vf_assert((a >> 8) == (e >> 8), "weekday arithmetic: object afterwards == std::chrono");
    vf_assert((e >> 8) <= 6 && (e & 0xff) <= 6, "weekday arithmetic stays in 0..6 (oracle sanity)");
}
Q q_weekday_add() { weekday_op<0>(); } Q q_weekday_radd() { weekday_op<1>(); } Q q_weekday_sub() { weekday_op<2>(); } Q q_weekday_addeq() { weekday_op<3>(); } Q q_weekday_subeq() { weekday_op<4>(); }
Q q_weekday_preinc() { weekday_op<5>(); } Q q_weekday_postinc() { weekday_op<6>(); } Q q_weekday_predec() { weekday_op<7>(); } Q q_weekday_postdec() { weekday_op<8>(); }
Q q_weekday_diff()
{
    unsigned a = nd_wd_ok(), b = nd_wd_ok(); int32_t r = k_weekday_diff(a, b);
    if ((a % 7) < (b % 7)) vf_witness("subtraction below Sunday");
    vf_assert(r == (sc::weekday{a} - sc::weekday{b}).count(), "weekday - weekday == std::chrono"); vf_assert(r >= 0 && r <= 6 && (b % 7 + unsigned(r)) % 7 == a % 7, "weekday - weekday in [0,6] and y + (x - y) == x");
}
Q q_weekday_rel() { unsigned a = nd_wd8(), b = nd_wd8(); sc::weekday x{a}, y{b}; vf_assert(k_weekday_rel(a, b) == (unsigned(x == y) | unsigned(x != y) << 1), "weekday comparisons == std::chrono"); }

// year: operands every int16 value, years full int32; the standard defines the result when it lies in [-32767, 32767]
template <unsigned OP> static void year_op()
{
    int y = nd_year16(); int32_t c = OP <= 4 ? vf_nd_i32() : 1;
    long long t = (OP == 2 || OP == 4 || OP == 7 || OP == 8) ? (long long)y - c : OP == 10 ? -(long long)y : OP == 9 ? y : (long long)y + c;
    vf_assume(t >= YMIN && t <= YMAX);
    unsigned a = k_year_op(OP, y, c), e = std_year_op(OP, y, c);
    vf_assert((a & 0xffff) == (e & 0xffff), "year arithmetic: returned value == std::chrono"); vf_assert((a >> 16) == (e >> 16), "year arithmetic: object afterwards == std::chrono");
    if (OP != 6 && OP != 8) vf_assert(int(int16_t(a & 0xffff)) == t, "year arithmetic: exact sum");
}
Q q_year_add() { year_op<0>(); } Q q_year_radd() { year_op<1>(); } Q q_year_sub() { year_op<2>(); } Q q_year_addeq() { year_op<3>(); } Q q_year_subeq() { year_op<4>(); }
Q q_year_preinc() { year_op<5>(); } Q q_year_postinc() { year_op<6>(); } Q q_year_predec() { year_op<7>(); } Q q_year_postdec() { year_op<8>(); }
Q q_year_pos() { year_op<9>(); } Q q_year_neg() { year_op<10>(); }
Q q_year_diff() { int a = nd_year16(), b = nd_year16(); vf_assert(k_year_diff(a, b) == (sc::year{a} - sc::year{b}).count() && k_year_diff(a, b) == a - b, "year - year == std::chrono"); }
Q q_year_rel()
{
    int a = nd_year16(), b = nd_year16(); sc::year x{a}, y{b};
    vf_assert(k_year_rel(a, b) == (unsigned(x == y) | unsigned(x != y) << 1 | unsigned(x < y) << 2 | unsigned(x <= y) << 3 | unsigned(x > y) << 4 | unsigned(x >= y) << 5), "year comparisons == std::chrono");
}

// day: value 0..254, days full int32 (the standard defines the result modulo 256 only when it is in 0..255; compared modulo 256 here)
template <unsigned OP> static void day_op()
{
    unsigned d = nd_byte(); int32_t c = OP <= 4 ? vf_nd_i32() : 1;
    unsigned a = k_day_op(OP, d, c), e = std_day_op(OP, d, c);
    vf_assert((a & 0xff) == (e & 0xff), "day arithmetic: returned value == std::chrono"); vf_assert((a >> 8) == (e >> 8), "day arithmetic: object afterwards == std::chrono");
}
Q q_day_add() { day_op<0>(); } Q q_day_radd() { day_op<1>(); } Q q_day_sub() { day_op<2>(); } Q q_day_addeq() { day_op<3>(); } Q q_day_subeq() { day_op<4>(); }
Q q_day_preinc() { day_op<5>(); } Q q_day_postinc() { day_op<6>(); } Q q_day_predec() { day_op<7>(); } Q q_day_postdec() { day_op<8>(); }
Q q_day_diff() { unsigned a = nd_byte(), b = nd_byte(); vf_assert(k_day_diff(a, b) == (sc::day{a} - sc::day{b}).count(), "day - day == std::chrono"); }
Q q_day_rel()
{
    unsigned a = nd_byte(), b = nd_byte(); sc::day x{a}, y{b};
    vf_assert(k_day_rel(a, b) == (unsigned(x == y) | unsigned(x != y) << 1 | unsigned(x < y) << 2 | unsigned(x <= y) << 3 | unsigned(x > y) << 4 | unsigned(x >= y) << 5), "day comparisons == std::chrono");
}

// ------------------------------------------------------------------------------------------------ year_month, year_month_day, _last, _weekday: +- months / years
// op: 0 x+months 1 months+x 2 x-months 3 x+=months 4 x-=months 5 x+years 6 years+x 7 x-years 8 x+=years 9 x-=years
// operands ok() (year -32767..32767, month 1..12), delta full int32, restricted to results whose year lies in [-32767, 32767]
static constexpr bool is_sub(unsigned op) { return op == 2 || op == 4 || op == 7 || op == 9; }
static constexpr bool is_months(unsigned op) { return op <= 4; }
// expected (year, month) by the calendar rule: floor division of the zero-based month index
static void expect_ym(unsigned op, int y, unsigned m, int32_t c, long long& ey, unsigned& em)
{
    long long d = is_sub(op) ? -(long long)c : (long long)c;
    if (is_months(op)) { long long i = (long long)m - 1 + d; long long q = (i >= 0 ? i : i - 11) / 12; ey = y + q; em = unsigned(i - q * 12) + 1; }
    else { ey = (long long)y + d; em = m; }
}
template <class T> static T std_cal_op(unsigned op, T x, int32_t c, T* state)
{
    T r = x;
    switch (op) {
    case 0: r = x + sc::months{c}; break; case 1: r = sc::months{c} + x; break; case 2: r = x - sc::months{c}; break;
    case 3: r = (x += sc::months{c}); break; case 4: r = (x -= sc::months{c}); break;
    case 5: r = x + sc::years{c}; break; case 6: r = sc::years{c} + x; break; case 7: r = x - sc::years{c}; break;
    case 8: r = (x += sc::years{c}); break; default: r = (x -= sc::years{c}); break;
    }
    *state = x;
    return r;
}
// year_month +- months keeps the year (etl/_chrono/year_month.hpp): every +- months of the compound types goes through it
#define YM_CARRY_REGION(OP) VF_KNOWN(C11_year_month_months_no_year_carry, is_months(OP) && ey != y)
#define YM_CARRY_OPEN (VF_KF_C11_year_month_months_no_year_carry == 1) /* region excluded from the main queries: its witness cannot be reached */
template <unsigned OP> static void ym_op()
{
    int y = nd_year_ok(); unsigned m = nd_month_ok(); int32_t c = vf_nd_i32();
    long long ey; unsigned em; expect_ym(OP, y, m, c, ey, em); vf_assume(ey >= YMIN && ey <= YMAX);
    YM_CARRY_REGION(OP);
    if constexpr (is_months(OP)) { if (em != m) vf_witness("month changes"); if constexpr (!YM_CARRY_OPEN) if (ey != y) vf_witness("carry into the year"); }
    sc::year_month st{sc::year{0}, sc::month{1}}; sc::year_month r = std_cal_op(OP, sc::year{y} / sc::month{m}, c, &st);
    u64 a = k_ym_op(OP, y, m, c);
    vf_assert((a & 0xffffffffu) == pk(r), "year_month arithmetic: returned value == std::chrono"); vf_assert((a >> 32) == pk(st), "year_month arithmetic: object afterwards == std::chrono");
    vf_assert((a & 0xffffffffu) == (u64(uint16_t(ey)) | u64(em) << 16), "year_month arithmetic: month normalised into 1..12 with carry into the year");
}
Q q_ym_addm() { ym_op<0>(); } Q q_ym_raddm() { ym_op<1>(); } Q q_ym_subm() { ym_op<2>(); } Q q_ym_addeqm() { ym_op<3>(); } Q q_ym_subeqm() { ym_op<4>(); }
Q q_ym_addy() { ym_op<5>(); } Q q_ym_raddy() { ym_op<6>(); } Q q_ym_suby() { ym_op<7>(); } Q q_ym_addeqy() { ym_op<8>(); } Q q_ym_subeqy() { ym_op<9>(); }

template <unsigned OP> static void ymd_op()
{
    int y = nd_year_ok(); unsigned m = nd_month_ok(), d = nd_byte(); int32_t c = vf_nd_i32();
    long long ey; unsigned em; expect_ym(OP, y, m, c, ey, em); vf_assume(ey >= YMIN && ey <= YMAX);
    YM_CARRY_REGION(OP);
    if constexpr (is_months(OP)) { if (em != m) vf_witness("month changes"); if constexpr (!YM_CARRY_OPEN) if (ey != y) vf_witness("carry into the year"); }
    sc::year_month_day st{}; sc::year_month_day r = std_cal_op(OP, sc::year_month_day{sc::year{y}, sc::month{m}, sc::day{d}}, c, &st);
    u64 a = k_ymd_op(OP, y, m, d, c);
    vf_assert((a & 0xffffffffu) == pk(r), "year_month_day arithmetic: returned value == std::chrono"); vf_assert((a >> 32) == pk(st), "year_month_day arithmetic: object afterwards == std::chrono");
    vf_assert((a & 0xffffffffu) == pack(int(ey), em, d), "year_month_day arithmetic: month normalised, year carried, day unchanged");
}
Q q_ymd_addm() { ymd_op<0>(); } Q q_ymd_raddm() { ymd_op<1>(); } Q q_ymd_subm() { ymd_op<2>(); } Q q_ymd_addeqm() { ymd_op<3>(); } Q q_ymd_subeqm() { ymd_op<4>(); }
Q q_ymd_addy() { ymd_op<5>(); } Q q_ymd_raddy() { ymd_op<6>(); } Q q_ymd_suby() { ymd_op<7>(); } Q q_ymd_addeqy() { ymd_op<8>(); } Q q_ymd_subeqy() { ymd_op<9>(); }

template <unsigned OP> static void ymdl_op()
{
    int y = nd_year_ok(); unsigned m = nd_month_ok(); int32_t c = vf_nd_i32();
    long long ey; unsigned em; expect_ym(OP, y, m, c, ey, em); vf_assume(ey >= YMIN && ey <= YMAX);
    YM_CARRY_REGION(OP);
    if constexpr (is_months(OP)) { if (em != m) vf_witness("month changes"); if constexpr (!YM_CARRY_OPEN) if (ey != y) vf_witness("carry into the year"); }
    sc::year_month_day_last st{sc::year{0}, sc::month_day_last{sc::month{1}}};
    sc::year_month_day_last r = std_cal_op(OP, sc::year_month_day_last{sc::year{y}, sc::month_day_last{sc::month{m}}}, c, &st);
    u64 a = k_ymdl_op(OP, y, m, c);
    vf_assert((a & 0xffffffffu) == pk(r), "year_month_day_last arithmetic: returned value == std::chrono"); vf_assert((a >> 32) == pk(st), "year_month_day_last arithmetic: object afterwards == std::chrono");
    vf_assert((a & 0xffffffffu) == pack(int(ey), em, em), "year_month_day_last arithmetic: month normalised, year carried");
}
Q q_ymdl_addm() { ymdl_op<0>(); } Q q_ymdl_raddm() { ymdl_op<1>(); } Q q_ymdl_subm() { ymdl_op<2>(); } Q q_ymdl_addeqm() { ymdl_op<3>(); } Q q_ymdl_subeqm() { ymdl_op<4>(); }
Q q_ymdl_addy() { ymdl_op<5>(); } Q q_ymdl_raddy() { ymdl_op<6>(); } Q q_ymdl_suby() { ymdl_op<7>(); } Q q_ymdl_addeqy() { ymdl_op<8>(); } Q q_ymdl_subeqy() { ymdl_op<9>(); }

// year_month_weekday: only the non-member operators exist in tetl (members += / -= are declared, never defined)
template <unsigned OP> static void ymw_op()
{
    int y = nd_year_ok(); unsigned m = nd_month_ok(), w = nd_wd_ok(), i = vf_nd_u8(); int32_t c = vf_nd_i32();
    long long ey; unsigned em; expect_ym(OP, y, m, c, ey, em); vf_assume(ey >= YMIN && ey <= YMAX);
    YM_CARRY_REGION(OP);
    if constexpr (is_months(OP)) { if (em != m) vf_witness("month changes"); if constexpr (!YM_CARRY_OPEN) if (ey != y) vf_witness("carry into the year"); }
    sc::year_month_weekday st{}; sc::year_month_weekday r = std_cal_op(OP, sc::year_month_weekday{sc::year{y}, sc::month{m}, sc::weekday_indexed{sc::weekday{w}, i}}, c, &st);
    u64 a = k_ymw_op(OP, y, m, w, i, c);
    vf_assert(a == pk(r), "year_month_weekday arithmetic: returned value == std::chrono");
    vf_assert(a == (u64(uint16_t(ey)) | u64(em) << 16 | u64(w % 7) << 24 | u64(i) << 32), "year_month_weekday arithmetic: month normalised, year carried, weekday_indexed unchanged");
}
Q q_ymw_addm() { ymw_op<0>(); } Q q_ymw_raddm() { ymw_op<1>(); } Q q_ymw_subm() { ymw_op<2>(); } Q q_ymw_addy() { ymw_op<5>(); } Q q_ymw_raddy() { ymw_op<6>(); } Q q_ymw_suby() { ymw_op<7>(); }
