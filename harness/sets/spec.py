import json
import os
import subprocess
import tempfile

PROPERTIES = ['C09', 'C02']
_here = os.path.dirname(os.path.abspath(__file__))

BOUNDS = {
    'quick': 'capacity CAP = 3. step (ONE operation from EVERY sorted pre-state, pre-size NA = 0..CAP enumerated, keys full 32-bit symbolic, object bytes before construction + unused element storage symbolic, positions/hints symbolic): '
             'less<int>: every entry of static_set<int,3,C> and flat_set<int,static_vector<int,3>,C> - observe, find/contains/count, lower/upper_bound, equal_range, insert const&/&&, emplace (+ returned iterator), insert(first,last) with NB = 1..3 arbitrary keys, '
             'hinted insert/emplace_hint, erase key/iterator/const_iterator/range, clear, swap (member: every NA x NB; free: one NB per NA), extract, replace; '
             'greater<int>: the comparator-dependent entries (lookups, insert/emplace + iterator, erase key/iterator/range, hinted insert, insert(first,last) NB = 2, swap one NB per NA, from_range/from_container); '
             'less<> (transparent): lookups incl. heterogeneous find/contains/count/lower_bound/upper_bound/equal_range, insert/emplace + iterator, erase(key); '
             'flat_set over inplace_vector: lookups (all comparators), observe/clear/extract (less<int>); from_any: static_set/flat_set from every range / container of NB = 0..3 arbitrary keys, flat_multiset (static_vector, inplace_vector) from every container of 0..3 keys; '
             'hist: 2 symbolic operations (insert, emplace, erase key/iterator/range, clear) from the default-constructed set, less and greater, static_set and flat_set',
    'thorough': 'CAP in {3, 4}: every entry, every comparator, every (NA, NB) pair; CAP 5 (less<int>): find/contains/count, lower/upper_bound, insert/emplace, erase key/iterator for NA = 0..5; '
                'hist: 3 symbolic operations at CAP 3 and 3 operations at CAP 2 (reaches the full set and the refused insert)',
}
ASSUMPTIONS = [
    'C09: the key type is int; equivalence under less/greater is equality, so comparator-vs-operator== confusions inside tetl (static_set::insert uses !=, find uses ==, flat_set::erase(key) uses remove/==) are invisible',
    'C09: pre-states are installed through the range constructor (static_set), the sorted_unique range constructor (flat_set over static_vector), sorted_unique/sorted_equivalent + container (inplace_vector backed sets, flat_multiset); '
    'the symbolic keys are constrained strictly ascending under the comparator (weakly for flat_multiset) - the representation invariant that every checked operation is shown to re-establish',
    'C09: "as long as capacity is not exceeded": range inserts / range constructors get at most CAP source keys and the model must not overflow (vf_assume); a NEW key into a FULL set must report .second == false and change nothing; '
    'the iterator returned in that case is not constrained; hinted insert into a full set only has to leave the set unchanged',
    'C09: iterators are compared as indices (it - begin()); erase(iterator)/erase(first,last) get iterators into the set with first <= last (documented precondition); replace() gets a sorted unique container',
    'C09: flat_set<int, inplace_vector<int,N>> only offers what compiles: construction (default, sorted_unique + container), size/empty/max_size, forward iteration, find/contains/count/lower_bound/upper_bound/equal_range, clear, extract; '
    'insert/emplace/erase/replace/swap/rbegin do not compile because etl::inplace_vector has no emplace(pos)/erase/assignment/rbegin (inplace_vector itself is C01 territory)',
    'C09: flat_multiset only has constructors, iteration and size (nothing else exists in tetl): checked = construction from an arbitrary container gives the weakly ascending permutation, sorted_equivalent adopts as is',
    'C09: compile-time defects (static_set::equal_range ill-formed, flat_set::insert(sorted_unique_t,...) never defined) are detected by a compiler probe in spec.py (clang -fsyntax-only on a two-line TU), '
    'not by the solver; while the probe fails the corresponding entries consist of a failing assertion inside the known-finding region',
    'C02: in the UB build the functional assertions are off except size() <= max_size() after every operation (a size beyond the capacity makes every later begin()..end() walk leave the object; '
    'the element array, the size member and the tail padding share one object, so CBMC sees the overflowing write of flat_set::insert into a full set only through this)',
    'C09: copy/move construction and assignment, relational operators, key_comp/value_comp, erase_if are not part of the property text and are not exercised',
]

REPO = os.environ.get('VF_REPO', '/repo')


def _probe(code, extra=()):
    """does this TU compile against the current tree? (used only for members that are ill-formed / undefined on the pinned tree)"""
    with tempfile.NamedTemporaryFile('w', suffix='.cpp', delete=False) as f:
        f.write(code)
        path = f.name
    try:
        r = subprocess.run(['clang++-16', '-std=c++20', '-fsyntax-only', '-Wno-everything', '-I' + os.path.join(REPO, 'include')] + list(extra) + [path],
                           stdout=subprocess.PIPE, stderr=subprocess.PIPE, timeout=600, text=True)
        if r.returncode != 0 and 'error:' not in r.stderr:
            raise RuntimeError('sets/spec.py: compiler probe did not run: ' + r.stderr[-300:])   # infrastructure problem, not a verdict on tetl
        return r.returncode == 0
    finally:
        os.unlink(path)


def probes():
    eqr = _probe('#include <etl/set.hpp>\n#include <etl/functional.hpp>\n'
                 'struct HK { int v; friend constexpr bool operator<(HK a, int b) { return a.v < b; } friend constexpr bool operator<(int a, HK b) { return a < b.v; } };\n'
                 'int f(etl::static_set<int, 3, etl::less<>>& s, etl::static_set<int, 3, etl::less<>> const& c) {\n'
                 '  auto a = s.equal_range(1); auto b = c.equal_range(1); auto d = s.equal_range(HK{1}); auto e = c.equal_range(HK{1});\n'
                 '  return int(a.second - a.first) + int(b.second - b.first) + int(d.second - d.first) + int(e.second - e.first); }\n')
    insu = _probe('#include <etl/flat_set.hpp>\n#include <etl/vector.hpp>\n'
                  'void f(etl::flat_set<int, etl::static_vector<int, 3>>& s, int const* v) { s.insert(etl::sorted_unique, v, v + 1); }\n',
                  ['-Werror=undefined-inline'])
    return eqr, insu


def open_findings():
    try:
        import sys
        sys.path.insert(0, os.path.join(os.path.dirname(os.path.dirname(_here)), 'engine'))
        import runner
        return {k['id'] for k in runner.load_findings().get('open', [])}
    except Exception:
        kp = os.path.join(_here, 'kf.json')
        return {k['id'] for k in json.load(open(kp))} if os.path.exists(kp) else set()


LOOKUP = ['find', 'bounds', 'equal_range']   # q_find: find/contains/count; q_bounds: lower_bound/upper_bound; q_equal_range
LOOKUP_H = [e + '_h' for e in LOOKUP]
INS = ['insert_l', 'insert_r', 'emplace']
INS_IT = [e + '_it' for e in INS]
HINT = ['insert_hint_l', 'insert_hint_r', 'emplace_hint']


def uw(cap):
    objsz = cap * 4 + 8
    return {'d_sym_block.0': objsz + 2, 'd_sym_block.1': objsz + 2, 'd_slack.0': cap * 4 + 2, 'd_slack.1': cap * 4 + 2,
            'll_memset.0': objsz + 2, 'll_memcpy.0': objsz + 2, 'll_memmove.0': objsz + 2, 'll_memmove.1': objsz + 2, 'll_undef_bytes.0': objsz + 10}


def queries(tier, prop='C09'):
    ub = prop == 'C02'
    quick = tier == 'quick'
    opn = open_findings()
    eqr_ok, insu_ok = probes()
    out = []

    def add(entry, subj, cmp_, cap, na, nb=0, unwind=None, budget=None, solver='minisat', confirm_only=False, extra=None):
        cfg = {'SUBJ': subj, 'CMP': cmp_, 'CAP': cap, 'NA': na, 'NB': nb}
        if extra:
            cfg.update(extra)
        q = dict(entry='q_' + entry, cfg=cfg, unwind=unwind or cap + 3, unwindset=uw(cap), budget=budget or (300 if quick else 900),
                 solver=solver, ub=ub, nofunc=ub)
        if confirm_only:
            q['confirm_only'] = True
        out.append(q)

    # (CAP, CMP, level): 2 = every entry and every (NA, NB) pair; 1 = comparator-dependent entries, few (NA, NB) pairs; 0 = lookups (+ heterogeneous),
    # single-key insert / erase(key) only (the transparent less<> orders like less<int>). The thorough tier runs everything at level 2.
    if quick:
        grid = [(3, 0, 2), (3, 1, 1), (3, 2, 0)]
    else:
        grid = [(3, 0, 2), (3, 1, 2), (3, 2, 2), (4, 0, 2), (4, 1, 2), (4, 2, 2)]
    if ub:   # C02 (UB build, functional assertions off): the same kernels on a smaller grid; entries that are stubs or repeat a kernel call are left out
        grid = [(3, 0, 1), (3, 2, 0)] if quick else [(3, 0, 2), (3, 1, 1), (3, 2, 0), (4, 0, 1)]
    for (cap, cmp_, lvl) in grid:
        full = lvl == 2
        for subj in (0, 1):
            ss = subj == 0
            for na in range(cap + 1):
                if full:
                    add('observe', subj, cmp_, cap, na)
                    add('clear', subj, cmp_, cap, na)
                for e in LOOKUP + (LOOKUP_H if cmp_ == 2 else []):
                    x = {}
                    co = False
                    if ss and e.startswith('equal_range'):
                        if eqr_ok:
                            x = {'HAVE_SS_EQR': 1}
                        else:
                            # the member does not compile: one failing stub per form (plain, heterogeneous) stands for it
                            if not (na == 0 and cap == 3 and ((e == 'equal_range' and cmp_ == 0) or (e == 'equal_range_h' and cmp_ == 2))):
                                continue
                            co = 'C09_static_set_equal_range_ill_formed' in opn
                    if ub and co:
                        continue
                    if ub and ss and e.startswith('equal_range') and not eqr_ok:
                        continue
                    # measured: minisat is erratic on the lookup entries at NA >= 3 (same query 7 s under less, 245 s under greater); cadical 14-15 s for both
                    add(e, subj, cmp_, cap, na, confirm_only=co, extra=x, solver='cadical' if na >= 3 else 'minisat')
                new_open = ss and 'C09_static_set_insert_iterator_new' in opn
                dup_open = ss and 'C09_static_set_insert_iterator_dup' in opn
                # static_set: nothing (that carries an assertion) is left outside the two open iterator regions
                whole = (na < cap and new_open and (dup_open or na == 0)) or (na == cap and dup_open)   # a full set has no iterator obligation for a new key
                for e in INS:
                    if not full and e == 'insert_r':
                        continue
                    # measured: with the key restricted to "absent" on a full set (open-finding regions, confirm queries) minisat does not
                    # finish (> 900 s) where cadical needs 5-25 s; everywhere else minisat is 2-4x faster than cadical
                    sv = 'cadical' if na == cap else 'minisat'
                    add(e, subj, cmp_, cap, na, solver=sv)
                    if not ub:
                        add(e + '_it', subj, cmp_, cap, na, confirm_only=whole, solver=sv)
                add('erase_key', subj, cmp_, cap, na,
                    confirm_only=(not ub and ss and cmp_ == 1 and na >= 1 and 'C09_static_set_erase_key_ignores_compare' in opn))
                if lvl == 0:
                    continue
                if na >= 1:
                    add('erase_it', subj, cmp_, cap, na)
                add('erase_range', subj, cmp_, cap, na)
                if not ss:
                    for e in HINT:
                        if not full and e != 'insert_hint_l':
                            continue
                        add(e, subj, cmp_, cap, na, solver='cadical' if na == cap else 'minisat')
                    if na >= 1 and full:
                        add('erase_cit', subj, cmp_, cap, na)
                    if full:
                        add('extract', subj, cmp_, cap, na, unwind=max(cap + 3, 22), confirm_only=(not ub and na >= 1 and 'C09_flat_set_extract_empty' in opn))
                for nb in range(cap + 1):
                    rot = nb == (na + 2) % (cap + 1)
                    if full or rot:
                        add('swap_member', subj, cmp_, cap, na, nb)
                    if (full and not quick) or nb == (na + 1) % (cap + 1):
                        add('swap_free', subj, cmp_, cap, na, nb)
                    if nb >= 1 and (full or nb == 2):
                        add('insert_range', subj, cmp_, cap, na, nb)
                    if not ss and full:
                        if not quick or na in (0, cap) or rot:
                            add('replace', subj, cmp_, cap, na, nb)
                        if insu_ok:
                            add('insert_su_range', subj, cmp_, cap, na, nb, extra={'HAVE_FS_INS_SU': 1})
            if not ss and not insu_ok and cap == 3 and cmp_ == 0 and not ub:
                add('insert_su_range', subj, cmp_, cap, 1, 1, confirm_only='C09_flat_set_insert_sorted_unique_undefined' in opn)
            if full:
                add('default_ctor', subj, cmp_, cap, 0)
            for nb in range(cap + 1):
                if lvl == 0 and nb != cap:
                    continue
                add('from_range', subj, cmp_, cap, 0, nb)
                if not ss:
                    add('from_container', subj, cmp_, cap, 0, nb)
                    if full:
                        add('from_su_container', subj, cmp_, cap, 0, nb)
        # flat_set over inplace_vector: what compiles
        for na in range(cap + 1):
            if full:
                add('observe', 2, cmp_, cap, na)
                add('clear', 2, cmp_, cap, na)
                add('extract', 2, cmp_, cap, na, unwind=max(cap + 3, 22), confirm_only=(not ub and na >= 1 and 'C09_flat_set_extract_empty' in opn))
            for e in LOOKUP + (LOOKUP_H if cmp_ == 2 else []):
                add(e, 2, cmp_, cap, na, solver='cadical' if na >= 3 else 'minisat')
        if full:
            add('default_ctor', 2, cmp_, cap, 0)
        # flat_multiset over static_vector / inplace_vector
        for subj in (3, 4):
            gn = cap + cap * (cap - 1) + 3       # gnome sort: n forward steps + 2 per inversion
            if full:
                add('default_ctor', subj, cmp_, cap, 0)
            for n in range(cap + 1):
                if full:
                    add('observe', subj, cmp_, cap, n)
                if lvl == 0 and n != cap:
                    continue
                add('from_container', subj, cmp_, cap, 0, n, unwind=gn)
    # hist
    hist = [(3, 2)] if quick else [(3, 3), (2, 3)]
    for (cap, k) in hist:
        for subj in (0, 1):
            for cmp_ in ((0, 1) if not ub else (0,)):
                add('hist', subj, cmp_, cap, 0, extra={'KSTEPS': k}, budget=300 if quick else 1800)
    if not quick and not ub:
        cap = 5
        for subj in (0, 1):
            for na in range(cap + 1):
                for e in ['find', 'bounds'] + INS + ['erase_key'] + (['erase_it'] if na else []):
                    add(e, subj, 0, cap, na, solver='cadical' if (na >= 3 and e in ('find', 'bounds')) or na == cap else 'minisat')
    return out
