// C09 kernels: thin wrappers around etl::static_set, etl::flat_set (over static_vector and over inplace_vector) and
// etl::flat_multiset. No logic besides marshalling: objects are addressed through void*, iterators travel as the index
// it - begin(), (iterator, bool) pairs as index + *flag, heterogeneous keys as the int wrapped into HK.
//   SUBJ 0 static_set<int,CAP,C>            SUBJ 1 flat_set<int, static_vector<int,CAP>, C>
//   SUBJ 2 flat_set<int, inplace_vector<int,CAP>, C>   (only what compiles: inplace_vector has no emplace/erase/rbegin/assignment)
//   SUBJ 3 flat_multiset<int, static_vector<int,CAP>, C>   SUBJ 4 flat_multiset<int, inplace_vector<int,CAP>, C>
//   CMP 0 etl::less<int>, 1 etl::greater<int>, 2 etl::less<> (transparent; heterogeneous lookups with HK)
#include <etl/flat_set.hpp>
#include <etl/functional.hpp>
#include <etl/inplace_vector.hpp>
#include <etl/set.hpp>
#include <etl/utility.hpp>
#include <etl/vector.hpp>
#include <new>
#include "vf.h" // after the library headers (K and Q are macros)
#ifndef SUBJ
#define SUBJ 0
#endif
#ifndef CMP
#define CMP 0
#endif
#ifndef CAP
#define CAP 3
#endif
using u64 = uint64_t;
#if CMP == 0
using C = etl::less<int>;
#elif CMP == 1
using C = etl::greater<int>;
#else
using C = etl::less<>;
#endif
using SVec = etl::static_vector<int, CAP>;
using IVec = etl::inplace_vector<int, CAP>;
#if SUBJ == 0
using S = etl::static_set<int, CAP, C>;
#elif SUBJ == 1
using Cont = SVec;
using S = etl::flat_set<int, Cont, C>;
#elif SUBJ == 2
using Cont = IVec;
using S = etl::flat_set<int, Cont, C>;
#elif SUBJ == 3
using Cont = SVec;
using S = etl::flat_multiset<int, Cont, C>;
#else
using Cont = IVec;
using S = etl::flat_multiset<int, Cont, C>;
#endif
#define SR(p) (*static_cast<S*>(p))
#define SC(p) (*static_cast<S const*>(p))
// heterogeneous key: comparable with int through operator< only (what a transparent less<> needs)
struct HK {
    int v;
    friend constexpr bool operator<(HK a, int b) { return a.v < b; }
    friend constexpr bool operator<(int a, HK b) { return a < b.v; }
};

K u64 k_sizeof() { return sizeof(S); }
K void k_dtor(void* p) { SR(p).~S(); }
// ---- containers (flat_set / flat_multiset): n elements appended in the given order
#if SUBJ >= 1
K u64 k_csizeof() { return sizeof(Cont); }
static void fill(Cont& c, int const* v, u64 n)
{
#if SUBJ == 2 || SUBJ == 4
    for (u64 i = 0; i < n; i++) c.unchecked_push_back(v[i]);
#else
    for (u64 i = 0; i < n; i++) c.push_back(v[i]);
#endif
}
K void k_cont_make(void* c, int const* v, u64 n) { auto* q = ::new (c) Cont{}; fill(*q, v, n); }
K u64 k_cont_size(void const* c) { return static_cast<Cont const*>(c)->size(); }
K int k_cont_at(void const* c, u64 i) { return *(static_cast<Cont const*>(c)->begin() + i); }
#endif
// ---- construction
#if SUBJ == 0
K void k_new(void* p) { ::new (p) S; }
K void k_make(void* p, int const* v, u64 n) { ::new (p) S(v, v + n); }          // range constructor (inserts one by one)
K void k_from_range(void* p, int const* v, u64 n) { ::new (p) S(v, v + n); }
#elif SUBJ == 1
K void k_new(void* p) { ::new (p) S; }
K void k_make(void* p, int const* v, u64 n) { ::new (p) S(etl::sorted_unique, v, v + n); } // adopts the range as is
K void k_from_range(void* p, int const* v, u64 n) { ::new (p) S(v, v + n); }     // arbitrary range: sorts + removes duplicates
K void k_from_container(void* p, void const* c) { ::new (p) S(*static_cast<Cont const*>(c)); }
K void k_from_su_container(void* p, void* c) { ::new (p) S(etl::sorted_unique, etl::move(*static_cast<Cont*>(c))); }
#elif SUBJ == 2
K void k_new(void* p) { ::new (p) S; }
K void k_make(void* p, int const* v, u64 n) { Cont c{}; fill(c, v, n); ::new (p) S(etl::sorted_unique, etl::move(c)); }
#else
K void k_new(void* p) { ::new (p) S; }
K void k_make(void* p, int const* v, u64 n) { Cont c{}; fill(c, v, n); ::new (p) S(etl::sorted_equivalent, etl::move(c)); }
K void k_from_container(void* p, void const* c) { ::new (p) S(*static_cast<Cont const*>(c)); } // arbitrary container: sorts
#endif
// ---- observers
K u64 k_size(void const* p) { return SC(p).size(); }
K bool k_empty(void const* p) { return SC(p).empty(); }
K u64 k_max_size(void const* p) { return SC(p).max_size(); }
#if SUBJ == 0
K bool k_full(void const* p) { return SC(p).full(); }
#endif
K unsigned char* k_data(void* p) { return reinterpret_cast<unsigned char*>(SR(p).begin()); }
// what begin()..end() visits, at most max values stored; returns the number of elements visited
K u64 k_iter(void* p, int* out, u64 max) { u64 i = 0; for (auto it = SR(p).begin(); it != SR(p).end(); ++it) { if (i < max) out[i] = *it; i++; } return i; }
K u64 k_iter_c(void const* p, int* out, u64 max) { u64 i = 0; for (auto it = SC(p).begin(); it != SC(p).end(); ++it) { if (i < max) out[i] = *it; i++; } return i; }
K u64 k_citer(void const* p, int* out, u64 max) { u64 i = 0; for (auto it = SC(p).cbegin(); it != SC(p).cend(); ++it) { if (i < max) out[i] = *it; i++; } return i; }
#if SUBJ == 0 || SUBJ == 1 || SUBJ == 3
K u64 k_riter(void* p, int* out, u64 max) { u64 i = 0; for (auto it = SR(p).rbegin(); it != SR(p).rend(); ++it) { if (i < max) out[i] = *it; i++; } return i; }
K u64 k_riter_c(void const* p, int* out, u64 max) { u64 i = 0; for (auto it = SC(p).rbegin(); it != SC(p).rend(); ++it) { if (i < max) out[i] = *it; i++; } return i; }
K u64 k_criter(void const* p, int* out, u64 max) { u64 i = 0; for (auto it = SC(p).crbegin(); it != SC(p).crend(); ++it) { if (i < max) out[i] = *it; i++; } return i; }
#endif

#if SUBJ <= 2
// ---- lookups (non-const and const overloads; *_h: heterogeneous overloads of a transparent comparator)
K u64 k_find(void* p, int x) { return u64(SR(p).find(x) - SR(p).begin()); }
K u64 k_find_c(void const* p, int x) { return u64(SC(p).find(x) - SC(p).begin()); }
K bool k_contains(void const* p, int x) { return SC(p).contains(x); }
K u64 k_count(void const* p, int x) { return SC(p).count(x); }
K u64 k_lower_bound(void* p, int x) { return u64(SR(p).lower_bound(x) - SR(p).begin()); }
K u64 k_lower_bound_c(void const* p, int x) { return u64(SC(p).lower_bound(x) - SC(p).begin()); }
K u64 k_upper_bound(void* p, int x) { return u64(SR(p).upper_bound(x) - SR(p).begin()); }
K u64 k_upper_bound_c(void const* p, int x) { return u64(SC(p).upper_bound(x) - SC(p).begin()); }
#if SUBJ != 0 || defined(HAVE_SS_EQR) // static_set::equal_range does not compile on the pinned tree (spec.py probes it)
K u64 k_equal_range(void* p, int x, u64* second) { auto r = SR(p).equal_range(x); *second = u64(r.second - SR(p).begin()); return u64(r.first - SR(p).begin()); }
K u64 k_equal_range_c(void const* p, int x, u64* second) { auto r = SC(p).equal_range(x); *second = u64(r.second - SC(p).begin()); return u64(r.first - SC(p).begin()); }
#endif
#if CMP == 2
K u64 k_find_h(void* p, int x) { return u64(SR(p).find(HK{x}) - SR(p).begin()); }
K u64 k_find_hc(void const* p, int x) { return u64(SC(p).find(HK{x}) - SC(p).begin()); }
K bool k_contains_h(void const* p, int x) { return SC(p).contains(HK{x}); }
K u64 k_count_h(void const* p, int x) { return SC(p).count(HK{x}); }
K u64 k_lower_bound_h(void* p, int x) { return u64(SR(p).lower_bound(HK{x}) - SR(p).begin()); }
K u64 k_lower_bound_hc(void const* p, int x) { return u64(SC(p).lower_bound(HK{x}) - SC(p).begin()); }
K u64 k_upper_bound_h(void* p, int x) { return u64(SR(p).upper_bound(HK{x}) - SR(p).begin()); }
K u64 k_upper_bound_hc(void const* p, int x) { return u64(SC(p).upper_bound(HK{x}) - SC(p).begin()); }
#if SUBJ != 0 || defined(HAVE_SS_EQR)
K u64 k_equal_range_h(void* p, int x, u64* second) { auto r = SR(p).equal_range(HK{x}); *second = u64(r.second - SR(p).begin()); return u64(r.first - SR(p).begin()); }
K u64 k_equal_range_hc(void const* p, int x, u64* second) { auto r = SC(p).equal_range(HK{x}); *second = u64(r.second - SC(p).begin()); return u64(r.first - SC(p).begin()); }
#endif
#endif
K void k_clear(void* p) { SR(p).clear(); }
#endif

#if SUBJ <= 1
// ---- modifiers
K u64 k_insert_l(void* p, int x, bool* ins) { int const k = x; auto r = SR(p).insert(k); *ins = r.second; return u64(r.first - SR(p).begin()); }
K u64 k_insert_r(void* p, int x, bool* ins) { int k = x; auto r = SR(p).insert(etl::move(k)); *ins = r.second; return u64(r.first - SR(p).begin()); }
K u64 k_emplace(void* p, int x, bool* ins) { auto r = SR(p).emplace(x); *ins = r.second; return u64(r.first - SR(p).begin()); }
K void k_insert_range(void* p, int const* v, u64 n) { SR(p).insert(v, v + n); }
K u64 k_erase_key(void* p, int x) { return SR(p).erase(x); }
K u64 k_erase_it(void* p, u64 i) { return u64(SR(p).erase(SR(p).begin() + i) - SR(p).begin()); }
K u64 k_erase_range(void* p, u64 i, u64 j) { return u64(SR(p).erase(SR(p).begin() + i, SR(p).begin() + j) - SR(p).begin()); }
K void k_swap_member(void* p, void* q) { SR(p).swap(SR(q)); }
K void k_swap_free(void* p, void* q) { using etl::swap; swap(SR(p), SR(q)); }
#endif
#if SUBJ == 1
K u64 k_insert_hint_l(void* p, u64 hint, int x) { int const k = x; return u64(SR(p).insert(SC(p).cbegin() + hint, k) - SR(p).begin()); }
K u64 k_insert_hint_r(void* p, u64 hint, int x) { int k = x; return u64(SR(p).insert(SC(p).cbegin() + hint, etl::move(k)) - SR(p).begin()); }
K u64 k_emplace_hint(void* p, u64 hint, int x) { return u64(SR(p).emplace_hint(SC(p).cbegin() + hint, x) - SR(p).begin()); }
K u64 k_erase_cit(void* p, u64 i) { return u64(SR(p).erase(SC(p).cbegin() + i) - SR(p).begin()); }
K void k_replace(void* p, void* c) { SR(p).replace(etl::move(*static_cast<Cont*>(c))); }
#ifdef HAVE_FS_INS_SU // flat_set::insert(sorted_unique_t, first, last) is declared but never defined on the pinned tree (spec.py probes it)
K void k_insert_su_range(void* p, int const* v, u64 n) { SR(p).insert(etl::sorted_unique, v, v + n); }
#endif
#endif
#if SUBJ == 1 || SUBJ == 2
K void k_extract(void* p, void* c) { ::new (c) Cont(etl::move(SR(p)).extract()); }
#endif
