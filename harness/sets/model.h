// C09 oracle: the sorted-array model of std::set<int, Compare> (Compare = less or greater), used by driver.cpp and
// validated natively against std::set by model_check.cpp. Deliberately written with counting loops (no binary search),
// so that it shares no algorithm with the code under test.
#ifndef SETS_MODEL_H
#define SETS_MODEL_H
template <unsigned CAPN, int CMPK> // CMPK: 0 = less<int>, 1 = greater<int>, 2 = less<> (transparent) - same order as 0
struct SetModel {
    int a[CAPN + 1];
    unsigned n = 0;
    static bool lt(int x, int y) { return CMPK == 1 ? x > y : x < y; }
    // index of the first element that is not ordered before k  ( = number of elements ordered before k)
    unsigned lower_bound(int k) const { unsigned c = 0; for (unsigned i = 0; i < n; i++) c += lt(a[i], k) ? 1u : 0u; return c; }
    // index of the first element ordered after k ( = number of elements not ordered after k)
    unsigned upper_bound(int k) const { unsigned c = 0; for (unsigned i = 0; i < n; i++) c += lt(k, a[i]) ? 0u : 1u; return c; }
    // index of the element equivalent to k, n if there is none (equivalence under less/greater on int is equality)
    unsigned find(int k) const { unsigned r = n; for (unsigned i = n; i-- > 0;) if (a[i] == k) r = i; return r; }
    bool contains(int k) const { return find(k) < n; }
    unsigned count(int k) const { return contains(k) ? 1u : 0u; }
    struct IR { unsigned idx; bool inserted; bool overflow; };
    // std::set::insert; if the key is new and the set is full nothing changes and overflow is reported
    IR insert(int k)
    {
        unsigned f = find(k);
        if (f < n) return IR{f, false, false};
        if (n == CAPN) return IR{n, false, true};
        unsigned lb = lower_bound(k);
        for (unsigned i = n; i > lb; i--) a[i] = a[i - 1];
        a[lb] = k; n++;
        return IR{lb, true, false};
    }
    unsigned erase_range(unsigned first, unsigned last) // returns the index of the element following the erased ones
    {
        unsigned d = last - first;
        for (unsigned i = last; i < n; i++) a[i - d] = a[i];
        n -= d;
        return first;
    }
    unsigned erase_at(unsigned i) { return erase_range(i, i + 1); }
    unsigned erase_key(int k) { unsigned f = find(k); if (f == n) return 0; erase_range(f, f + 1); return 1; }
    void clear() { n = 0; }
    void swap(SetModel& o)
    {
        for (unsigned i = 0; i < CAPN; i++) { int t = a[i]; a[i] = o.a[i]; o.a[i] = t; }
        unsigned t = n; n = o.n; o.n = t;
    }
    bool strictly_ascending() const { for (unsigned i = 0; i + 1 < n; i++) if (!lt(a[i], a[i + 1])) return false; return true; }
};
#endif
