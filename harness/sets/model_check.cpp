// Oracle validation (DESIGN.md 1.7(3)): the sorted-array model of model.h against libstdc++ std::set<int, less/greater>
// on seeded random operation sequences over a small key universe (so duplicates and the full condition are frequent).
// Decides nothing about tetl; it bounds the trust placed in the hand-written oracle. Build and run (not part of ./vf check):
//   g++ -std=c++20 -O1 -fsanitize=address,undefined harness/sets/model_check.cpp -o /tmp/sets_model_check && /tmp/sets_model_check [seed] [sequences]
#include "model.h"
#include <algorithm>
#include <cstdio>
#include <cstdlib>
#include <functional>
#include <iterator>
#include <random>
#include <set>
template <int CMPK, typename Cmp>
static unsigned long run(unsigned seed, unsigned nseq)
{
    constexpr unsigned CAPM = 4;
    using Mod = SetModel<CAPM, CMPK>;
    using Std = std::set<int, Cmp>;
    std::mt19937 g(seed);
    auto rnd = [&](unsigned n) { return unsigned(g() % (n + 1)); }; // 0..n
    auto same = [](Mod const& m, Std const& s) { return m.n == s.size() && std::equal(s.begin(), s.end(), m.a) && m.strictly_ascending(); };
    auto idx = [](Std const& s, typename Std::const_iterator it) { return unsigned(std::distance(s.begin(), it)); };
    unsigned long steps = 0;
    for (unsigned q = 0; q < nseq; q++) {
        Mod m{}; Std s; Mod m2{}; Std s2;
        for (unsigned k = 0; k < 24; k++) {
            int x = int(rnd(6)) - 1; unsigned op = rnd(9); bool ok = true;
            switch (op) {
            case 0: case 1: {
                bool isnew = s.find(x) == s.end();
                if (isnew && s.size() == CAPM) { auto r = m.insert(x); ok = r.overflow && !r.inserted; break; } // std::set has no capacity: the model must refuse
                auto e = s.insert(x); auto r = m.insert(x);
                ok = r.inserted == e.second && r.idx == idx(s, e.first) && !r.overflow; break; }
            case 2: { auto e = s.erase(x); auto r = m.erase_key(x); ok = e == r; break; }
            case 3: if (!s.empty()) { unsigned i = rnd(unsigned(s.size()) - 1); auto e = s.erase(std::next(s.begin(), i)); unsigned r = m.erase_at(i); ok = r == idx(s, e); } break;
            case 4: { unsigned j = rnd(unsigned(s.size())); unsigned i = rnd(j); auto e = s.erase(std::next(s.begin(), i), std::next(s.begin(), j)); unsigned r = m.erase_range(i, j); ok = r == idx(s, e); break; }
            case 5: ok = m.find(x) == idx(s, s.find(x)) && m.contains(x) == (s.count(x) == 1) && m.count(x) == s.count(x); break;
            case 6: { auto er = s.equal_range(x); ok = m.lower_bound(x) == idx(s, s.lower_bound(x)) && m.upper_bound(x) == idx(s, s.upper_bound(x)) && idx(s, er.first) == m.lower_bound(x) && idx(s, er.second) == m.upper_bound(x); break; }
            case 7: s.swap(s2); m.swap(m2); break;
            case 8: if (rnd(3) == 0) { s.clear(); m.clear(); } break;
            default: break;
            }
            steps++;
            if (!ok || !same(m, s) || !same(m2, s2)) { std::printf("MISMATCH cmp=%d seed=%u seq=%u step=%u op=%u x=%d\n", CMPK, seed, q, k, op, x); std::exit(1); }
        }
    }
    return steps;
}
int main(int argc, char** argv)
{
    unsigned seed = argc > 1 ? unsigned(std::atoi(argv[1])) : 1u;
    unsigned nseq = argc > 2 ? unsigned(std::atoi(argv[2])) : 20000u;
    unsigned long a = run<0, std::less<int>>(seed, nseq);
    unsigned long b = run<1, std::greater<int>>(seed + 1, nseq);
    std::printf("sets model == std::set on %lu steps (less) + %lu steps (greater)\n", a, b);
    return 0;
}
