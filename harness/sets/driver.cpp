// C09 driver: ONE operation from EVERY sorted pre-state of a set (step; the asserted post-condition re-establishes the
// strictly-ascending invariant, so it is inductive over all histories), construction from ARBITRARY contents (from_any)
// and k-step histories from the default-constructed set (hist). Oracle: the sorted-array model of std::set<int,Compare>
// in model.h (validated natively against std::set by model_check.cpp).
// Enumerated by spec.py: SUBJ (which container), CMP (comparator), CAP (capacity), NA (pre-size), NB (size of the second
// set / source range / replacement container), KSTEPS (history length).
// Symbolic: every key (full int range), every byte of the object block before construction, the unused element storage,
// positions, hints, operation codes - restricted only by the documented precondition.
#include "vf.h"
#include "model.h"
#ifndef SUBJ
#define SUBJ 0
#endif
#ifndef CMP
#define CMP 0
#endif
#ifndef CAP
#define CAP 3
#endif
#ifndef NA
#define NA 0
#endif
#ifndef NB
#define NB 0
#endif
#ifndef KSTEPS
#define KSTEPS 2
#endif
using u64 = uint64_t;
using M = SetModel<CAP, CMP>;
#define MULTI (SUBJ >= 3)
// per-branch reachability witness; nomerge keeps clang from folding sibling witnesses into one call with a selected string
#define WIT(name) do { [[clang::nomerge]] vf_witness(name); } while (0)
// true while the finding is listed open (its region is excluded from the main queries, so witnesses inside it are unreachable)
#define KFOPEN(ID) (VF_KF_##ID == 1)

extern "C" {
u64 k_sizeof(); void k_dtor(void*); u64 k_csizeof(); void k_cont_make(void*, int const*, u64); u64 k_cont_size(void const*); int k_cont_at(void const*, u64);
void k_new(void*); void k_make(void*, int const*, u64); void k_from_range(void*, int const*, u64); void k_from_container(void*, void const*); void k_from_su_container(void*, void*);
u64 k_size(void const*); bool k_empty(void const*); u64 k_max_size(void const*); bool k_full(void const*); unsigned char* k_data(void*);
u64 k_iter(void*, int*, u64); u64 k_iter_c(void const*, int*, u64); u64 k_citer(void const*, int*, u64); u64 k_riter(void*, int*, u64); u64 k_riter_c(void const*, int*, u64); u64 k_criter(void const*, int*, u64);
u64 k_find(void*, int); u64 k_find_c(void const*, int); bool k_contains(void const*, int); u64 k_count(void const*, int);
u64 k_lower_bound(void*, int); u64 k_lower_bound_c(void const*, int); u64 k_upper_bound(void*, int); u64 k_upper_bound_c(void const*, int);
u64 k_equal_range(void*, int, u64*); u64 k_equal_range_c(void const*, int, u64*);
u64 k_find_h(void*, int); u64 k_find_hc(void const*, int); bool k_contains_h(void const*, int); u64 k_count_h(void const*, int);
u64 k_lower_bound_h(void*, int); u64 k_lower_bound_hc(void const*, int); u64 k_upper_bound_h(void*, int); u64 k_upper_bound_hc(void const*, int);
u64 k_equal_range_h(void*, int, u64*); u64 k_equal_range_hc(void const*, int, u64*);
void k_clear(void*);
u64 k_insert_l(void*, int, bool*); u64 k_insert_r(void*, int, bool*); u64 k_emplace(void*, int, bool*); void k_insert_range(void*, int const*, u64);
u64 k_erase_key(void*, int); u64 k_erase_it(void*, u64); u64 k_erase_range(void*, u64, u64); void k_swap_member(void*, void*); void k_swap_free(void*, void*);
u64 k_insert_hint_l(void*, u64, int); u64 k_insert_hint_r(void*, u64, int); u64 k_emplace_hint(void*, u64, int); u64 k_erase_cit(void*, u64);
void k_replace(void*, void*); void k_insert_su_range(void*, int const*, u64); void k_extract(void*, void*);
}

// exact-size block whose bytes are all solver variables (own function: its loop gets its own unwind bound)
extern "C" __attribute__((noinline)) void* d_sym_block(u64 n)
{
    unsigned char* p = (unsigned char*)vf_alloc(n);
    for (u64 i = 0; i < n; i++) p[i] = vf_nd_u8();
    return p;
}
// fresh symbolic bytes over the unused part of the element storage (no live object there)
extern "C" __attribute__((noinline)) void d_slack(unsigned char* d, u64 from, u64 to)
{
    for (u64 j = from; j < to; j++) d[j] = vf_nd_u8();
}
// n symbolic keys in an exact-size block, constrained to the representation invariant: strictly ascending under the
// comparator (weakly ascending for the multiset)
static int* sorted_keys(unsigned n)
{
    int* v = vf_sym_ints(n);
    for (unsigned i = 0; i + 1 < n; i++) vf_assume(MULTI ? !M::lt(v[i + 1], v[i]) : M::lt(v[i], v[i + 1]));
    return v;
}
// the set under test holding n symbolic keys: constructed through the range / sorted_unique / sorted_equivalent
// constructor into a block of symbolic bytes; the unused element storage is overwritten with fresh symbolic bytes
static void* mk(M& m, unsigned n)
{
    int* v = sorted_keys(n);
    void* p = d_sym_block(k_sizeof());
    k_make(p, v, n);
    if (n < CAP) d_slack(k_data(p), u64(n) * 4, u64(CAP) * 4);
    m.n = n;
    for (unsigned i = 0; i < n; i++) m.a[i] = v[i];
    return p;
}
// everything a set shows: size, empty, max_size, (full), iteration order; plus the invariant itself
static void chk(void* p, M const& m)
{
    // stays on in the C02 (UB / memory-only) build: a size() beyond the capacity makes every later begin()..end() walk leave the object
    (vf_assert)(k_size(p) <= CAP, "size() <= max_size()");
    vf_assert(k_size(p) == m.n, "size() == std::set");
    vf_assert(k_empty(p) == (m.n == 0), "empty() == (size() == 0)");
    vf_assert(k_max_size(p) == CAP, "max_size() is the capacity");
#if SUBJ == 0
    vf_assert(k_full(p) == (m.n == CAP), "full() == (size() == capacity)");
#endif
    int* out = (int*)vf_alloc(4 * (CAP + 1));
    vf_assert(k_iter(p, out, CAP + 1) == m.n, "iteration visits size() elements");
    for (unsigned i = 0; i < m.n && i < CAP + 1; i++) vf_assert(out[i] == m.a[i], "iteration order == std::set");
    for (unsigned i = 0; i + 1 < m.n && i < CAP; i++) vf_assert(MULTI ? !M::lt(out[i + 1], out[i]) : M::lt(out[i], out[i + 1]), "iteration is strictly ascending under the comparator");
}
// reachability of the three kinds of key (present / absent with a successor / absent after every element)
static void wit_key(M const& m, int x, bool present_ok = true, bool succ_ok = true, bool beyond_ok = true)
{
    if (NA > 0 && present_ok && m.contains(x)) WIT("key present");
    if (NA > 0 && succ_ok && !m.contains(x) && m.lower_bound(x) < m.n) WIT("key absent, has a successor");
    if (beyond_ok && !m.contains(x) && m.lower_bound(x) == m.n) WIT("key absent, ordered after every element");
}

// =====================================================================================================================
// observers / construction
// =====================================================================================================================
Q q_observe()
{
    M m{}; void* p = mk(m, NA); chk(p, m);
    int* o = (int*)vf_alloc(4 * (CAP + 1));
    vf_assert(k_iter_c(p, o, CAP + 1) == NA, "const begin()..end() visits size() elements");
    for (unsigned i = 0; i < NA; i++) vf_assert(o[i] == m.a[i], "const iteration order");
    int* o2 = (int*)vf_alloc(4 * (CAP + 1));
    vf_assert(k_citer(p, o2, CAP + 1) == NA, "cbegin()..cend() visits size() elements");
    for (unsigned i = 0; i < NA; i++) vf_assert(o2[i] == m.a[i], "cbegin()..cend() order");
#if SUBJ == 0 || SUBJ == 1 || SUBJ == 3
    int* r = (int*)vf_alloc(4 * (CAP + 1)); int* r2 = (int*)vf_alloc(4 * (CAP + 1)); int* r3 = (int*)vf_alloc(4 * (CAP + 1));
    vf_assert(k_riter(p, r, CAP + 1) == NA && k_riter_c(p, r2, CAP + 1) == NA && k_criter(p, r3, CAP + 1) == NA, "reverse iteration visits size() elements");
    for (unsigned i = 0; i < NA; i++) vf_assert(r[i] == m.a[NA - 1 - i] && r2[i] == m.a[NA - 1 - i] && r3[i] == m.a[NA - 1 - i], "reverse iteration order == std::set");
#endif
    k_dtor(p);
}
Q q_default_ctor() // default-initialisation into a block of symbolic bytes gives the empty set
{
    M m{}; void* p = d_sym_block(k_sizeof()); k_new(p); chk(p, m);
}
// arbitrary symbolic range / container -> sorted, unique, same key set (multiset: sorted, same elements)
static int* any_keys(M& m, unsigned n)
{
    int* v = vf_sym_ints(n);
#if MULTI
    for (unsigned i = 0; i < n; i++) { unsigned j = i; while (j > 0 && M::lt(v[i], m.a[j - 1])) { m.a[j] = m.a[j - 1]; j--; } m.a[j] = v[i]; } // insertion sort
    m.n = n;
#else
    bool dup = false;
    for (unsigned i = 0; i < n; i++) { M::IR r = m.insert(v[i]); if (!r.inserted) dup = true; }
    if (NB > 1 && dup) WIT("source has a duplicate key");
    if (NB > 1 && !dup && !M::lt(v[0], v[1])) WIT("source is not in order");
#endif
    return v;
}
#if SUBJ <= 1
Q q_from_range() { M m{}; int* v = any_keys(m, NB); void* p = d_sym_block(k_sizeof()); k_from_range(p, v, NB); chk(p, m); }
#endif
#if SUBJ == 1 || SUBJ >= 3
Q q_from_container()
{
    M m{}; int* v = any_keys(m, NB); void* c = d_sym_block(k_csizeof()); k_cont_make(c, v, NB);
    void* p = d_sym_block(k_sizeof()); k_from_container(p, c); chk(p, m);
    vf_assert(k_cont_size(c) == NB, "construction from a container leaves the source container alone");
}
#endif
#if SUBJ == 1
Q q_from_su_container()
{
    M m{}; int* v = sorted_keys(NB); m.n = NB; for (unsigned i = 0; i < NB; i++) m.a[i] = v[i];
    void* c = d_sym_block(k_csizeof()); k_cont_make(c, v, NB);
    void* p = d_sym_block(k_sizeof()); k_from_su_container(p, c); chk(p, m);
}
#endif

#if SUBJ <= 2
// =====================================================================================================================
// lookups: must answer like std::set and leave the set alone
// =====================================================================================================================
Q q_find() // find (both overloads), contains, count of one key
{
    M m{}; void* p = mk(m, NA); int x = vf_nd_i32(); unsigned e = m.find(x);
    vf_assert(k_find(p, x) == e, "find(key) == std::set"); vf_assert(k_find_c(p, x) == e, "find(key) const == std::set");
    vf_assert(k_contains(p, x) == m.contains(x), "contains(key) == std::set"); vf_assert(k_count(p, x) == m.count(x), "count(key) == std::set");
    wit_key(m, x); chk(p, m);
}
Q q_bounds() // lower_bound, upper_bound (both overloads each) of one key
{
    M m{}; void* p = mk(m, NA); int x = vf_nd_i32(); unsigned l = m.lower_bound(x), u = m.upper_bound(x);
    vf_assert(k_lower_bound(p, x) == l, "lower_bound(key) == std::set"); vf_assert(k_lower_bound_c(p, x) == l, "lower_bound(key) const == std::set");
    vf_assert(k_upper_bound(p, x) == u, "upper_bound(key) == std::set"); vf_assert(k_upper_bound_c(p, x) == u, "upper_bound(key) const == std::set");
    wit_key(m, x); chk(p, m);
}
Q q_equal_range()
{
    M m{}; void* p = mk(m, NA); int x = vf_nd_i32(); u64* s = (u64*)vf_alloc(8); u64* s2 = (u64*)vf_alloc(8);
#if SUBJ == 0 && !defined(HAVE_SS_EQR)
    VF_KNOWN(C09_static_set_equal_range_ill_formed, true);
    vf_assert(false, "static_set::equal_range(key) can be instantiated (it is ill-formed: returns a pair as iterator)");
#else
    u64 f = k_equal_range(p, x, s); u64 f2 = k_equal_range_c(p, x, s2);
    vf_assert(f == m.lower_bound(x) && *s == m.upper_bound(x), "equal_range(key) == std::set");
    vf_assert(f2 == m.lower_bound(x) && *s2 == m.upper_bound(x), "equal_range(key) const == std::set");
    wit_key(m, x); chk(p, m);
#endif
}
#if CMP == 2
// heterogeneous overloads (transparent comparator, key type comparable with int through operator< only)
#if SUBJ == 0
#define KN_FIND_H(m, x) VF_KNOWN(C09_static_set_find_transparent, NA >= 1 && !((x) < (m).a[0]))
#define FIND_H_OPEN KFOPEN(C09_static_set_find_transparent)
#else
#define KN_FIND_H(m, x) do { } while (0)
#define FIND_H_OPEN false
#endif
Q q_find_h()
{
    M m{}; void* p = mk(m, NA); int x = vf_nd_i32(); KN_FIND_H(m, x); unsigned e = m.find(x);
    vf_assert(k_find_h(p, x) == e, "find(K) == std::set"); vf_assert(k_find_hc(p, x) == e, "find(K) const == std::set");
    vf_assert(k_contains_h(p, x) == m.contains(x), "contains(K) == std::set"); vf_assert(k_count_h(p, x) == m.count(x), "count(K) == std::set");
    wit_key(m, x, !FIND_H_OPEN, true, !FIND_H_OPEN); chk(p, m);
}
Q q_bounds_h()
{
    M m{}; void* p = mk(m, NA); int x = vf_nd_i32(); unsigned l = m.lower_bound(x), u = m.upper_bound(x);
    vf_assert(k_lower_bound_h(p, x) == l, "lower_bound(K) == std::set"); vf_assert(k_lower_bound_hc(p, x) == l, "lower_bound(K) const == std::set");
    vf_assert(k_upper_bound_h(p, x) == u, "upper_bound(K) == std::set"); vf_assert(k_upper_bound_hc(p, x) == u, "upper_bound(K) const == std::set");
    wit_key(m, x); chk(p, m);
}
Q q_equal_range_h()
{
    M m{}; void* p = mk(m, NA); int x = vf_nd_i32(); u64* s = (u64*)vf_alloc(8); u64* s2 = (u64*)vf_alloc(8);
#if SUBJ == 0 && !defined(HAVE_SS_EQR)
    VF_KNOWN(C09_static_set_equal_range_ill_formed, true);
    vf_assert(false, "static_set::equal_range(K) can be instantiated (it is ill-formed: returns a pair as iterator)");
#else
    u64 f = k_equal_range_h(p, x, s); u64 f2 = k_equal_range_hc(p, x, s2);
    vf_assert(f == m.lower_bound(x) && *s == m.upper_bound(x), "equal_range(K) == std::set");
    vf_assert(f2 == m.lower_bound(x) && *s2 == m.upper_bound(x), "equal_range(K) const == std::set");
    wit_key(m, x); chk(p, m);
#endif
}
#endif
Q q_clear() { M m{}; void* p = mk(m, NA); k_clear(p); m.clear(); chk(p, m); }
#endif

#if SUBJ <= 1
// =====================================================================================================================
// insert / emplace of one key: (.second, state) and, separately, the returned iterator
// =====================================================================================================================
#if SUBJ == 1
#define KN_FULL(m, x) VF_KNOWN(C09_flat_set_insert_full, (m).n == CAP && !(m).contains(x))
#define FULL_OPEN KFOPEN(C09_flat_set_insert_full)
#define KN_INS_IT(m, x) do { } while (0)
#define IT_NEW_OPEN false
#define IT_DUP_OPEN false
#else
#define KN_FULL(m, x) do { } while (0)
#define FULL_OPEN false
#define KN_INS_IT(m, x) do { VF_KNOWN(C09_static_set_insert_iterator_new, NA < CAP && !(m).contains(x)); VF_KNOWN(C09_static_set_insert_iterator_dup, (m).contains(x)); } while (0)
#define IT_NEW_OPEN KFOPEN(C09_static_set_insert_iterator_new)
#define IT_DUP_OPEN KFOPEN(C09_static_set_insert_iterator_dup)
#endif
#define INS1(NAME, TXT)                                                                                                  \
    Q q_##NAME()                                                                                                         \
    {                                                                                                                    \
        M m{}; void* p = mk(m, NA); int x = vf_nd_i32(); bool* ins = (bool*)vf_alloc(1); KN_FULL(m, x);                  \
        k_##NAME(p, x, ins); M::IR e = m.insert(x);                                                                      \
        if (NA < CAP && e.inserted) WIT("new key inserted");                                                             \
        if (NA > 0 && !e.inserted && !e.overflow) WIT("duplicate key");                                                  \
        if (NA == CAP && e.overflow && !FULL_OPEN) WIT("new key, set full");                                             \
        vf_assert(*ins == e.inserted, TXT ".second == std::set (false for a new key when the set is full)");             \
        chk(p, m);                                                                                                       \
    }                                                                                                                    \
    Q q_##NAME##_it()                                                                                                    \
    {                                                                                                                    \
        M m{}; void* p = mk(m, NA); int x = vf_nd_i32(); bool* ins = (bool*)vf_alloc(1); KN_FULL(m, x); KN_INS_IT(m, x); \
        u64 r = k_##NAME(p, x, ins); M::IR e = m.insert(x);                                                              \
        if (NA < CAP && e.inserted && !IT_NEW_OPEN) WIT("new key inserted");                                             \
        if (NA > 0 && !e.inserted && !e.overflow && !IT_DUP_OPEN) WIT("duplicate key");                                  \
        if (!e.overflow) vf_assert(r == e.idx, TXT ".first points to the element with the key (== std::set)");           \
    }
INS1(insert_l, "insert(const&)")
INS1(insert_r, "insert(&&)")
INS1(emplace, "emplace(args)")
Q q_insert_range() // insert(first,last): source = exact-size block of NB arbitrary keys outside the set; capacity not exceeded
{
    M m{}; void* p = mk(m, NA); int* v = vf_sym_ints(NB); bool over = false, dup = false;
    for (unsigned i = 0; i < NB; i++) { M::IR r = m.insert(v[i]); over = over || r.overflow; dup = dup || (!r.inserted && !r.overflow); }
    vf_assume(!over);
    if (NA + NB > 1 && NB > 0 && dup) WIT("range has a key that is already present (or repeated)");
    if (NB > 0 && NA + NB <= CAP && !dup) WIT("every key of the range is new");
    k_insert_range(p, v, NB); chk(p, m);
}
// =====================================================================================================================
// erase by key / iterator / range, swap
// =====================================================================================================================
Q q_erase_key()
{
    M m{}; void* p = mk(m, NA); int x = vf_nd_i32();
#if SUBJ == 0 && CMP != 1
    VF_KNOWN(C09_static_set_erase_key_no_equality_test, !m.contains(x) && m.lower_bound(x) < m.n);
    wit_key(m, x, true, !KFOPEN(C09_static_set_erase_key_no_equality_test), true);
#elif SUBJ == 0
    VF_KNOWN(C09_static_set_erase_key_ignores_compare, NA >= 1);
    wit_key(m, x, !KFOPEN(C09_static_set_erase_key_ignores_compare), !KFOPEN(C09_static_set_erase_key_ignores_compare), true);
#else
    wit_key(m, x);
#endif
    u64 r = k_erase_key(p, x); unsigned e = m.erase_key(x);
    vf_assert(r == e, "erase(key) returns the number of erased elements (== std::set)"); chk(p, m);
}
Q q_erase_it()
{
    M m{}; void* p = mk(m, NA); u64 i = vf_nd_u64(); vf_assume(i < NA);
    u64 r = k_erase_it(p, i); unsigned e = m.erase_at((unsigned)i);
    vf_assert(r == e, "erase(iterator) returns the iterator following the erased element"); chk(p, m);
}
Q q_erase_range()
{
    M m{}; void* p = mk(m, NA); u64 i = vf_nd_u64(), j = vf_nd_u64(); vf_assume(i <= j && j <= NA);
#if SUBJ == 0
    VF_KNOWN(C09_static_set_erase_range, j - i >= 2);
    bool const multi_ok = !KFOPEN(C09_static_set_erase_range);
#else
    bool const multi_ok = true;
#endif
    if (i == j) WIT("empty range");
    if (NA >= 2 && multi_ok && j - i >= 2) WIT("range of two or more elements");
    if (NA >= 2 && multi_ok && i == 0 && j == NA) WIT("whole set");
    u64 r = k_erase_range(p, i, j); unsigned e = m.erase_range((unsigned)i, (unsigned)j);
    vf_assert(r == e, "erase(first,last) returns the iterator following the erased elements"); chk(p, m);
}
Q q_swap_member() { M m{}, m2{}; void* p = mk(m, NA); void* q = mk(m2, NB); k_swap_member(p, q); m.swap(m2); chk(p, m); chk(q, m2); }
Q q_swap_free() { M m{}, m2{}; void* p = mk(m, NA); void* q = mk(m2, NB); k_swap_free(p, q); m.swap(m2); chk(p, m); chk(q, m2); }
#endif

#if SUBJ == 1
// =====================================================================================================================
// flat_set only: hinted insert / emplace_hint, erase(const_iterator), insert(sorted_unique, range), replace
// =====================================================================================================================
#define HINT1(NAME, TXT)                                                                                                 \
    Q q_##NAME()                                                                                                         \
    {                                                                                                                    \
        M m{}; void* p = mk(m, NA); int x = vf_nd_i32(); u64 h = vf_nd_u64(); vf_assume(h <= NA); KN_FULL(m, x);         \
        u64 r = k_##NAME(p, h, x); M::IR e = m.insert(x);                                                                \
        if (NA < CAP && e.inserted) WIT("new key inserted");                                                             \
        if (NA > 0 && !e.inserted && !e.overflow) WIT("duplicate key");                                                  \
        if (!e.overflow) vf_assert(r == e.idx, TXT " returns the iterator to the element with the key (== std::set)");   \
        chk(p, m);                                                                                                       \
    }
HINT1(insert_hint_l, "insert(hint,const&)")
HINT1(insert_hint_r, "insert(hint,&&)")
HINT1(emplace_hint, "emplace_hint(hint,args)")
Q q_erase_cit()
{
    M m{}; void* p = mk(m, NA); u64 i = vf_nd_u64(); vf_assume(i < NA);
    u64 r = k_erase_cit(p, i); unsigned e = m.erase_at((unsigned)i);
    vf_assert(r == e, "erase(const_iterator) returns the iterator following the erased element"); chk(p, m);
}
Q q_insert_su_range() // insert(sorted_unique, first, last): source sorted + unique, capacity not exceeded
{
    M m{}; void* p = mk(m, NA); int* v = sorted_keys(NB); bool over = false;
    for (unsigned i = 0; i < NB; i++) { M::IR r = m.insert(v[i]); over = over || r.overflow; }
    vf_assume(!over);
#ifndef HAVE_FS_INS_SU
    VF_KNOWN(C09_flat_set_insert_sorted_unique_undefined, true);
    vf_assert(false, "flat_set::insert(sorted_unique_t, first, last) has a definition (it is declared but never defined)");
#else
    k_insert_su_range(p, v, NB); chk(p, m);
#endif
}
Q q_replace() // replace(container&&): the container must be sorted + unique (precondition of std::flat_set::replace)
{
    M m{}, m2{}; void* p = mk(m, NA); int* v = sorted_keys(NB); m2.n = NB; for (unsigned i = 0; i < NB; i++) m2.a[i] = v[i];
    void* c = d_sym_block(k_csizeof()); k_cont_make(c, v, NB);
    k_replace(p, c); chk(p, m2);
}
#endif
#if SUBJ == 1 || SUBJ == 2
Q q_extract() // std::flat_set::extract: returns the container with all elements, *this is left empty
{
    M m{}, empty{}; void* p = mk(m, NA);
    VF_KNOWN(C09_flat_set_extract_empty, NA >= 1);
    void* c = d_sym_block(k_csizeof()); k_extract(p, c);
    vf_assert(k_cont_size(c) == NA, "extract() returns a container with size() elements");
    for (unsigned i = 0; i < NA; i++) vf_assert(k_cont_at(c, i) == m.a[i], "extract() returns the elements in order");
    chk(p, empty);
}
#endif

#if SUBJ <= 1
// =====================================================================================================================
// hist: KSTEPS symbolic operations from the default-constructed set; full state compared after every step
// =====================================================================================================================
Q q_hist()
{
    M m{}; void* p = d_sym_block(k_sizeof()); k_new(p); chk(p, m);
    bool* ins = (bool*)vf_alloc(1);
    for (unsigned s = 0; s < KSTEPS; s++) {
        unsigned op = vf_nd_u8(); int x = vf_nd_i32(); u64 i = vf_nd_u8(), j = vf_nd_u8();
        vf_assume(op < 6);
        if (op == 0) {
            KN_FULL(m, x); k_insert_l(p, x, ins); M::IR e = m.insert(x); vf_assert(*ins == e.inserted, "hist: insert().second == std::set");
            if (s == KSTEPS - 1 && KSTEPS > 1 && !e.inserted && !e.overflow) WIT("hist: last step inserts a duplicate");
            if (KSTEPS > CAP && e.overflow && !FULL_OPEN) WIT("hist: new key refused by the full set");
        } else if (op == 1) {
            KN_FULL(m, x); k_emplace(p, x, ins); M::IR e = m.insert(x); vf_assert(*ins == e.inserted, "hist: emplace().second == std::set");
        } else if (op == 2) {
#if SUBJ == 0 && CMP != 1
            VF_KNOWN(C09_static_set_erase_key_no_equality_test, !m.contains(x) && m.lower_bound(x) < m.n);
#elif SUBJ == 0
            VF_KNOWN(C09_static_set_erase_key_ignores_compare, m.n >= 1);
#endif
            u64 r = k_erase_key(p, x); unsigned e = m.erase_key(x); vf_assert(r == e, "hist: erase(key) count == std::set");
            if (s == KSTEPS - 1 && KSTEPS > 1 && e == 1 && !(SUBJ == 0 && CMP == 1 && KFOPEN(C09_static_set_erase_key_ignores_compare))) WIT("hist: last step erases a present key");
        } else if (op == 3) {
            vf_assume(i < m.n); u64 r = k_erase_it(p, i); unsigned e = m.erase_at((unsigned)i); vf_assert(r == e, "hist: erase(iterator) result");
        } else if (op == 4) {
            vf_assume(i <= j && j <= m.n);
#if SUBJ == 0
            VF_KNOWN(C09_static_set_erase_range, j - i >= 2);
#endif
            u64 r = k_erase_range(p, i, j); unsigned e = m.erase_range((unsigned)i, (unsigned)j); vf_assert(r == e, "hist: erase(first,last) result");
        } else {
            k_clear(p); m.clear();
        }
        chk(p, m);
    }
    if (m.n == (KSTEPS < CAP ? KSTEPS : CAP)) WIT("hist: every step inserted a new key");
}
#endif
