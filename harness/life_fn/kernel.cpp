// C03 kernels (family life_fn): thin wrappers around etl::inplace_function<int(int), 16> (and capacity 8 for the converting
// constructors) holding callables that capture an instrumented Tracked<3,FLAV> (../life_vec/tracked.h). No logic besides
// marshalling: objects are addressed through void*, the target travels as a kind (0 empty, 1 small, 2 large) and a payload.
#include <etl/functional.hpp>
#include <etl/utility.hpp>
#include <etl/new.hpp>
#include "vf.h" // after the library headers (K and Q are macros)
#include "../life_vec/tracked.h"
using T3 = Tracked<3, FLAV>;
using PV = uint32_t;
using u64 = uint64_t;
extern "C" {
extern void const* vf_fn_this; // address of the capture of the target invoked last (defined in driver.cpp)
}
struct C1 { // 8 bytes: fills inplace_function<int(int), 8> exactly
    T3 t;
    explicit C1(PV x) noexcept : t((int)x) {}
    int operator()(int a) const { vf_fn_this = &t; return int(unsigned(t.get()) ^ unsigned(a)); }
};
struct C2 { // 16 bytes
    T3 t;
    int k0, k1;
    explicit C2(PV x) noexcept : t((int)x), k0(7), k1(9) {}
    int operator()(int a) const { vf_fn_this = &t; return int(~(unsigned(t.get()) ^ unsigned(a))); }
};
using F = etl::inplace_function<int(int), 16>;
using FS = etl::inplace_function<int(int), 8>;
#define FR(p) (*static_cast<F*>(p))
#define FC(p) (*static_cast<F const*>(p))
#define SR(p) (*static_cast<FS*>(p))
#define SC(p) (*static_cast<FS const*>(p))

// where the target starts inside the function object: a vtable pointer, then the storage aligned as the class declares
// (F::alignment). No accessor exists; the driver's census (and q_f_make, through the capture's own address) confirms it.
struct ProbeF { void const* vt; alignas(F::alignment::value) unsigned char st[F::capacity::value]; };
struct ProbeS { void const* vt; alignas(FS::alignment::value) unsigned char st[FS::capacity::value]; };
K u64 k_f_storage_off() { return __builtin_offsetof(ProbeF, st); }
K u64 k_s_storage_off() { return __builtin_offsetof(ProbeS, st); }
K u64 k_f_sizeof() { return sizeof(F); }
K u64 k_s_sizeof() { return sizeof(FS); }
K void k_f_dtor(void* p) { FR(p).~F(); }
K void k_s_dtor(void* p) { SR(p).~FS(); }
K bool k_f_bool(void const* p) { return static_cast<bool>(FC(p)) && FC(p) != nullptr && !(FC(p) == nullptr) && nullptr != FC(p); }
K bool k_s_bool(void const* p) { return static_cast<bool>(SC(p)); }
K PV k_f_call(void const* p, PV a) { return (PV)FC(p)((int)a); }
K PV k_s_call(void const* p, PV a) { return (PV)SC(p)((int)a); }
// construction: kind 0 default, 1 small callable, 2 large callable, 3 nullptr
K void k_f_make(void* p, unsigned kind, PV x)
{
    switch (kind) {
    case 0: ::new (p) F; break;
    case 1: ::new (p) F(C1(x)); break;   // from an rvalue callable
    case 2: ::new (p) F(C2(x)); break;
    default: ::new (p) F(nullptr); break;
    }
}
K void k_f_make_lvalue(void* p, unsigned kind, PV x) // from an lvalue callable (copied into the function)
{
    switch (kind) {
    case 1: { C1 const c(x); ::new (p) F(c); break; }
    case 2: { C2 const c(x); ::new (p) F(c); break; }
    default: ::new (p) F; break;
    }
}
K void k_s_make(void* p, unsigned kind, PV x)
{
    if (kind == 1) ::new (p) FS(C1(x)); else ::new (p) FS;
}
K void k_f_copy_ctor(void* d, void const* s) { ::new (d) F(FC(s)); }
K void k_f_move_ctor(void* d, void* s) { ::new (d) F(etl::move(FR(s))); }
K void k_f_conv_copy(void* d, void const* s) { ::new (d) F(SC(s)); }       // from a function of smaller capacity
K void k_f_conv_move(void* d, void* s) { ::new (d) F(etl::move(SR(s))); }
K void k_f_assign_nullptr(void* p) { FR(p) = nullptr; }
K void k_f_assign_copy(void* d, void const* s) { FR(d) = FC(s); }
K void k_f_assign_move(void* d, void* s) { FR(d) = etl::move(FR(s)); }
K void k_f_assign_callable(void* p, unsigned kind, PV x)
{
    if (kind == 1) FR(p) = C1(x); else FR(p) = C2(x);
}
K void k_f_assign_conv(void* d, void const* s) { FR(d) = SC(s); } // converting copy construction of the by-value parameter
K void k_f_swap(void* a, void* b) { FR(a).swap(FR(b)); }
K void k_f_swap_free(void* a, void* b) { using etl::swap; swap(FR(a), FR(b)); }
