PROPERTIES = ['C03', 'C02']
BOUNDS = {
    'quick': 'inplace_function<int(int),16> (and <int(int),8> as the source of the converting constructors): one operation from every state (empty, 8-byte target, 16-byte target; '
             'state symbolic, case-split), every (lhs, rhs) state pair for assignment and swap; captured payloads, call argument and raw object bytes symbolic; copy+move, copy-only and defaulted-assignment captures',
    'thorough': 'same as quick (the state space of a single function object is covered completely by the single steps)',
}
ASSUMPTIONS = [
    'C03: inplace_function requires a copy-constructible target (static_assert), so a move-only capture does not compile and is not part of the claim',
    'C03: an empty function is never invoked (it raises bad_function_call); the address of the stored target is taken from the capture while it is invoked (no target() accessor exists)',
    'C03: a moved-from function is valid: what operator bool reports is what is alive; it is assignable and destructible (tetl leaves it empty)',
]
ALL = ['make', 'make_lvalue', 'copy_ctor', 'move_ctor', 'conv_copy', 'conv_move', 'assign_nullptr', 'assign_callable', 'assign_self', 'assign_conv', 'move_assign_self', 'swap_self', 'swap_self_empty',
       'assign_copy', 'assign_move', 'swap', 'swap_free']
UW = {'ll_memset.0': 130, 'll_memcpy.0': 130, 'll_memmove.0': 130, 'll_memmove.1': 130, 'll_undef_bytes.0': 66}
for f_, n_ in (('d_sym_block', 40), ('lg_register', 18), ('lg_expect', 18), ('lg_marks', 70)):
    for i_ in range(4): UW['%s.%d' % (f_, i_)] = n_


def queries(tier, prop='C03'):
    ub = prop == 'C02'
    out = []
    for fl in ((0, 2, 3) if not ub else (0,)):
        for e in ALL:
            q = dict(entry='q_f_' + e, cfg={'FLAV': fl}, unwind=24, unwindset=UW, budget=120 if tier == 'quick' else 600, ub=ub, nofunc=ub)
            out.append(q)
    for q_ in out:
        q_['lazy_trace'] = True   # verdict first, counterexample trace only when an obligation fails (engine/runner.py)
        if q_['cfg'].get('FLAV') == 3: q_['cbmc_flags'] = ['--max-field-sensitivity-array-size', '256']   # defaulted assignment = memcpy through pointers: keep the ledger global field-sensitive
    return out
