// C03 driver (family life_fn): ONE operation from EVERY state of etl::inplace_function<int(int),16> whose target captures an
// instrumented Tracked (../life_vec/tracked.h): empty, small target (8 bytes), large target (16 bytes).
// Symbolic: the state of each function object (case-split), the captured payloads, the call argument, the raw object bytes.
// Checked after every kernel call: emptiness and the call result equal the model; exactly the capture of the stored target is
// a live object inside the function object's block; no temporary is alive; no illegal transition. At the end: nothing alive,
// constructions == destructions.
#define LIFE_DRIVER 1
#include "vf.h"
#include "../life_vec/tracked.h"
extern "C" {
Ledger vf_led;
void const* vf_fn_this;
}
using u64 = uint64_t;
using PV = uint32_t;
#define ESZ 8u
#define TAG 3u
extern "C" {
u64 k_f_storage_off(); u64 k_s_storage_off(); u64 k_f_sizeof(); u64 k_s_sizeof(); void k_f_dtor(void*); void k_s_dtor(void*); bool k_f_bool(void const*); bool k_s_bool(void const*); PV k_f_call(void const*, PV); PV k_s_call(void const*, PV);
void k_f_make(void*, unsigned, PV); void k_f_make_lvalue(void*, unsigned, PV); void k_s_make(void*, unsigned, PV); void k_f_copy_ctor(void*, void const*); void k_f_move_ctor(void*, void*);
void k_f_conv_copy(void*, void const*); void k_f_conv_move(void*, void*); void k_f_assign_nullptr(void*); void k_f_assign_copy(void*, void const*); void k_f_assign_move(void*, void*);
void k_f_assign_callable(void*, unsigned, PV); void k_f_assign_conv(void*, void const*); void k_f_swap(void*, void*); void k_f_swap_free(void*, void*);
}
static inline PV nd_pv() { return (PV)lg_nd_payload(); }
static inline u64 nd_idx(unsigned maxv) { u64 i = vf_nd_u8(); vf_assume(i <= maxv); return i; }
extern "C" __attribute__((noinline)) void* d_sym_block(u64 n)
{
    unsigned char* p = (unsigned char*)vf_alloc(n);
    for (u64 i = 0; i < n; i++) p[i] = vf_nd_u8();
    return p;
}
struct S { // model: kind of the target (0 none, 1 small, 2 large) and the captured payload
    u64 kind;
    PV val;
};
#define END() lg_balanced()
static inline void* f_raw(unsigned r) { void* p = d_sym_block(k_f_sizeof()); lg_register(r, p, k_f_sizeof()); lg_layout(r, k_f_storage_off(), ESZ); vf_led.nslot[r] = 1; return p; }
static inline void* s_raw(unsigned r) { void* p = d_sym_block(k_s_sizeof()); lg_register(r, p, k_s_sizeof()); lg_layout(r, k_s_storage_off(), ESZ); vf_led.nslot[r] = 1; return p; }
// emptiness, call result for a symbolic argument, and the census: the capture lives inside the function object
static inline void f_check(void* p, S const& s, unsigned r)
{
    bool h = k_f_bool(p);
    vf_assert(h == (s.kind != 0), "operator bool / == nullptr agree with the model");
    if (h != (s.kind != 0)) return;
    if (h) {
        PV a = vf_nd_u32(); PV res = k_f_call(p, a);
        vf_assert(res == (s.kind == 1 ? (s.val ^ a) : ~(s.val ^ a)), "invoking the stored target gives the model's result");
        lg_expect(r, k_f_storage_off(), 1, ESZ, TAG);
    } else {
        lg_expect(r, 0, 0, ESZ, TAG);
    }
    lg_quiet();
}
static inline void s_check(void* p, S const& s, unsigned r)
{
    bool h = k_s_bool(p);
    vf_assert(h == (s.kind != 0), "small function: operator bool agrees with the model");
    if (h != (s.kind != 0)) return;
    if (h) {
        PV a = vf_nd_u32(); PV res = k_s_call(p, a);
        vf_assert(res == (s.val ^ a), "small function: invoking the stored target gives the model's result");
        lg_expect(r, k_s_storage_off(), 1, ESZ, TAG);
    } else {
        lg_expect(r, 0, 0, ESZ, TAG);
    }
    lg_quiet();
}
static inline void* f_make(u64 kind, PV x, unsigned r)
{
    void* p = f_raw(r);
    uint32_t c0 = vf_led.nctor, d0 = vf_led.ndtor;
    k_f_make(p, (unsigned)kind, x);
    vf_assert((vf_led.nctor - c0) - (vf_led.ndtor - d0) == (kind ? 1u : 0u), "ledger is shared between the TUs: constructing from a callable leaves exactly one capture alive");
    S s{kind, x}; f_check(p, s, r);
    return p;
}
static inline void f_fin(void* p, unsigned r) { k_f_dtor(p); lg_expect(r, 0, 0, ESZ, TAG); lg_quiet(); }
// a moved-from function is valid: whatever operator bool says is what is alive; it is assignable and destructible
static inline void f_reuse_fin(void* p, unsigned r)
{
    bool h = k_f_bool(p);
    if (h) { (void)k_f_call(p, 0); lg_expect(r, k_f_storage_off(), 1, ESZ, TAG); } else { lg_expect(r, 0, 0, ESZ, TAG); }
    lg_quiet();
    PV y = nd_pv(); k_f_assign_callable(p, 2, y); S s{2, y}; f_check(p, s, r); f_fin(p, r);
}
// ---- construction
Q q_f_make() // default, from an rvalue small / large callable, from nullptr
{
    u64 sk = nd_idx(3); PV x = nd_pv();
    split<3>(sk, [&](u64 k) { void* p = f_raw(0); k_f_make(p, (unsigned)k, x); S s{k == 3 ? 0 : k, x}; f_check(p, s, 0);
                              if (s.kind) vf_assert((unsigned char const*)vf_fn_this == (unsigned char const*)p + k_f_storage_off(), "the invoked target is the object inside the function's storage");
                              f_fin(p, 0); END(); });
}
Q q_f_make_lvalue() // from an lvalue callable: the callable is copied, the original destroyed by its owner
{
    u64 sk = nd_idx(2); PV x = nd_pv();
    split<2>(sk, [&](u64 k) { void* p = f_raw(0); k_f_make_lvalue(p, (unsigned)k, x); S s{k, x}; f_check(p, s, 0); f_fin(p, 0); END(); });
}
Q q_f_copy_ctor()
{
    u64 sa = nd_idx(2); PV x = nd_pv();
    split<2>(sa, [&](u64 a) { void* p = f_make(a, x, 0); void* q = f_raw(1); S s{a, x};
                              k_f_copy_ctor(q, p); f_check(q, s, 1); f_check(p, s, 0); f_fin(p, 0); f_check(q, s, 1); f_fin(q, 1); END(); });
}
Q q_f_move_ctor()
{
    u64 sa = nd_idx(2); PV x = nd_pv();
    split<2>(sa, [&](u64 a) { void* p = f_make(a, x, 0); void* q = f_raw(1); S s{a, x};
                              k_f_move_ctor(q, p); f_check(q, s, 1); f_reuse_fin(p, 0); f_check(q, s, 1); f_fin(q, 1); END(); });
}
Q q_f_conv_copy() // inplace_function<int(int),16>(inplace_function<int(int),8> const&)
{
    u64 sa = nd_idx(1); PV x = nd_pv();
    split<1>(sa, [&](u64 a) { void* p = s_raw(0); k_s_make(p, (unsigned)a, x); S s{a, x}; s_check(p, s, 0); void* q = f_raw(1);
                              k_f_conv_copy(q, p); f_check(q, s, 1); s_check(p, s, 0); k_s_dtor(p); lg_expect(0, 0, 0, ESZ, TAG); f_check(q, s, 1); f_fin(q, 1); END(); });
}
Q q_f_conv_move()
{
    u64 sa = nd_idx(1); PV x = nd_pv();
    split<1>(sa, [&](u64 a) { void* p = s_raw(0); k_s_make(p, (unsigned)a, x); S s{a, x}; s_check(p, s, 0); void* q = f_raw(1);
                              k_f_conv_move(q, p); f_check(q, s, 1);
                              bool h = k_s_bool(p); if (h) { (void)k_s_call(p, 0); lg_expect(0, k_s_storage_off(), 1, ESZ, TAG); } else { lg_expect(0, 0, 0, ESZ, TAG); }
                              lg_quiet(); k_s_dtor(p); lg_expect(0, 0, 0, ESZ, TAG); f_check(q, s, 1); f_fin(q, 1); END(); });
}
// ---- assignment / reset
#define F_UN(NAME, KMAX, ...)                                                                                            \
    Q q_f_##NAME()                                                                                                       \
    {                                                                                                                    \
        u64 sa = nd_idx(2), sk = nd_idx(KMAX); PV x = nd_pv(), y = nd_pv();                                              \
        split<2>(sa, [&](u64 a) { split<KMAX>(sk, [&](u64 k) {                                                           \
            void* p = f_make(a, x, 0); S s{a, x}; (void)k; (void)y; __VA_ARGS__; f_check(p, s, 0); f_fin(p, 0); END(); }); }); \
    }
F_UN(assign_nullptr, 0, k_f_assign_nullptr(p); s.kind = 0)
F_UN(assign_callable, 1, k_f_assign_callable(p, (unsigned)k + 1, y); s = S{k + 1, y})
F_UN(assign_self, 0, k_f_assign_copy(p, p)) // f = f: the by-value parameter is a copy, the value is unchanged
F_UN(assign_conv, 1, void* q = s_raw(2); k_s_make(q, (unsigned)k, y); S t{k, y}; k_f_assign_conv(p, q); s = t; f_check(p, s, 0); s_check(q, t, 2); k_s_dtor(q); lg_expect(2, 0, 0, ESZ, TAG))
Q q_f_move_assign_self() // f = move(f): the parameter is move-constructed from f, then relocated back
{
    u64 sa = nd_idx(2); PV x = nd_pv();
    split<2>(sa, [&](u64 a) { void* p = f_make(a, x, 0); k_f_assign_move(p, p); f_reuse_fin(p, 0); END(); });
}
Q q_f_swap_self() // f.swap(f) leaves the value unchanged (non-empty function)
{
    u64 sa = nd_idx(1); PV x = nd_pv();
    split<1>(sa, [&](u64 c) { void* p = f_make(c + 1, x, 0); S s{c + 1, x}; k_f_swap(p, p); f_check(p, s, 0); f_fin(p, 0); END(); });
}
Q q_f_swap_self_empty()
{
    PV x = nd_pv(); void* p = f_make(0, x, 0); S s{0, x}; k_f_swap(p, p); f_check(p, s, 0); f_fin(p, 0); END();
}
#define F_BIN(NAME, ...)                                                                                                 \
    Q q_f_##NAME()                                                                                                       \
    {                                                                                                                    \
        u64 sa = nd_idx(2), sb = nd_idx(2); PV x = nd_pv(), y = nd_pv();                                                 \
        split<2>(sa, [&](u64 a) { split<2>(sb, [&](u64 b) {                                                              \
            void* p = f_make(a, x, 0); void* q = f_make(b, y, 1); S sp{a, x}, sq{b, y}; __VA_ARGS__; END(); }); });      \
    }
F_BIN(assign_copy, k_f_assign_copy(p, q); f_check(p, sq, 0); f_check(q, sq, 1); f_fin(q, 1); f_check(p, sq, 0); f_fin(p, 0))
F_BIN(assign_move, k_f_assign_move(p, q); f_check(p, sq, 0); f_reuse_fin(q, 1); f_check(p, sq, 0); f_fin(p, 0))
F_BIN(swap, k_f_swap(p, q); f_check(p, sq, 0); f_check(q, sp, 1); f_fin(p, 0); f_check(q, sp, 1); f_fin(q, 1))
F_BIN(swap_free, k_f_swap_free(p, q); f_check(p, sq, 0); f_check(q, sp, 1); f_fin(q, 1); f_check(p, sq, 0); f_fin(p, 0))
