// C20 driver (pair / tuple). Never includes tetl. Every operation of ops.h is run twice on the same symbolic element values:
// by the kernel (etl::pair / etl::tuple) and here on std::pair / std::tuple (libstdc++ through the same pipeline). Compared:
// every observable element value afterwards (destination, source, moved-from markers, address identities) and the log of
// element operations (default/value/copy/move constructions, copy/move assignments, ADL swaps of Tr/Mo/Co elements);
// constructions and destructions must balance. Explicit expectations on top for the central operations.
#include "vf.h"
#include <tuple>
#include <utility>
#include <functional>
extern "C" {
int vf_elog[8];
}
namespace LIB = std;
#include "ops.h"

static void log_reset() { for (int i = 0; i < 8; i++) vf_elog[i] = 0; }
// runs the kernel (etl) and the std twin on identical inputs, compares outputs and logs; returns the etl outputs (or null)
typedef bool (*opfn)(int const*, int*);
static int const* run_both(opfn kf, opfn sf, unsigned nin, unsigned nout, int const** inputs)
{
    int* in = vf_sym_ints(nin);
    int* kin = vf_dup_ints(in, nin);
    int* ko = (int*)vf_alloc(nout * 4); int* so = (int*)vf_alloc(nout * 4);
    for (unsigned i = 0; i < nout; i++) { ko[i] = 0; so[i] = 0; }
    int kl[8], sl[8];
    log_reset(); bool ka = kf(kin, ko); for (int i = 0; i < 8; i++) kl[i] = vf_elog[i];
    log_reset(); bool sa = sf(in, so); for (int i = 0; i < 8; i++) sl[i] = vf_elog[i];
    *inputs = in;
    if (!ka || !sa) return nullptr; // not offered for these element types (availability is type-level, see kernel.cpp)
    for (unsigned i = 0; i < nout; i++) vf_assert(ko[i] == so[i], "element values / identities after the operation: etl == std");
    for (unsigned i = 0; i < nin; i++) vf_assert(kin[i] == in[i], "inputs untouched");
    vf_assert(kl[L_COPY] == sl[L_COPY] && kl[L_MOVE] == sl[L_MOVE], "same number of element copy / move constructions as std (value category of each element preserved)");
    vf_assert(kl[L_CASSIGN] == sl[L_CASSIGN] && kl[L_MASSIGN] == sl[L_MASSIGN], "same number of element copy / move assignments as std");
    vf_assert(kl[L_SWAP] == sl[L_SWAP] && kl[L_DEFAULT] == sl[L_DEFAULT] && kl[L_VAL] == sl[L_VAL], "same number of element swaps / default / value constructions as std");
    vf_assert(kl[L_DEFAULT] + kl[L_VAL] + kl[L_COPY] + kl[L_MOVE] == kl[L_DTOR], "every element constructed is destroyed exactly once");
    return ko;
}
#define X(name, nin, nout) extern "C" bool k_##name(int const*, int*);
C20_PAIR_OPS(X)
C20_TUPLE_OPS(X)
#undef X
#define RUN(name, nin, nout) int const* in; int const* o = run_both(k_##name, OPS::op_##name, nin, nout, &in); if (!o) return; vf_witness(#name ": compared with std")
constexpr bool movable(int id) { return id == 1 || id == 2; }
// value a source object shows after it was handed to give(): moved-from marker for Tr/Mo, unchanged otherwise
static int after_give(int id, int v) { return movable(id) ? E_MOVED : v; }

// ---- pair
#define OPS PO
Q q_p_default() { RUN(p_default, 1, 2); vf_assert(o[0] == 0 && o[1] == 0, "pair{} value-initialises both elements"); }
Q q_p_ctor_fwd()
{
    RUN(p_ctor_fwd, 2, 6);
    vf_assert(o[0] == in[0] && o[1] == in[1], "pair(x, y): first == x, second == y");
    vf_assert(o[2] == after_give(PE1, in[0]) && o[3] == after_give(PE2, in[1]), "movable arguments are moved from, others left alone");
}
Q q_p_ctor_clv() { RUN(p_ctor_clv, 2, 4); vf_assert(o[0] == in[0] && o[1] == in[1] && o[2] == in[0] && o[3] == in[1], "pair(T1 const&, T2 const&) copies"); }
Q q_p_copy() { RUN(p_copy, 2, 8); vf_assert(o[0] == in[0] && o[1] == in[1] && o[2] == in[0] && o[3] == in[1], "copy construction: equal elements, source unchanged"); }
Q q_p_move()
{
    RUN(p_move, 2, 4);
    vf_assert(o[0] == in[0] && o[1] == in[1], "move construction: element values arrive");
    vf_assert(o[2] == after_give(PE1, in[0]) && o[3] == after_give(PE2, in[1]), "move construction moves movable elements, copies the others");
}
Q q_p_conv() { RUN(p_conv, 2, 6); vf_assert(o[0] == in[0] && o[1] == in[1] && o[4] == in[0] && o[5] == in[1], "converting construction from pair<int,int>"); }
Q q_p_conv_tr() { RUN(p_conv_tr, 2, 4); vf_assert(o[0] == in[0] && o[1] == in[1], "converting move construction from pair<Tr,Tr>"); }
Q q_p_assign_copy()
{
    RUN(p_assign_copy, 4, 11);
    vf_assert(o[0] == 1, "assignment returns *this");
    vf_assert(o[1] == in[2] && o[2] == in[3] && o[3] == in[2] && o[4] == in[3], "copy assignment: elements equal the source, source unchanged");
    vf_assert(o[9] == in[2] && o[10] == in[3], "self copy assignment keeps the elements");
}
Q q_p_assign_move()
{
    RUN(p_assign_move, 4, 9);
    vf_assert(o[0] == 1 && o[1] == in[2] && o[2] == in[3], "move assignment: element values arrive");
}
Q q_p_assign_conv() { RUN(p_assign_conv, 6, 8); vf_assert(o[0] == in[2] && o[1] == in[3] && o[4] == in[4] && o[5] == in[5], "converting assignment from pair<int,int>"); }
Q q_p_swap()
{
    RUN(p_swap, 4, 10);
    vf_assert(o[0] == in[2] && o[1] == in[3] && o[2] == in[0] && o[3] == in[1], "member swap exchanges both elements");
    vf_assert(o[4] == in[0] && o[5] == in[1] && o[6] == in[2] && o[7] == in[3], "free swap exchanges them back");
    vf_assert(o[8] == in[0] && o[9] == in[1], "self swap keeps the elements");
}
Q q_p_get()
{
    RUN(p_get, 4, 18);
    vf_assert(o[0] == in[0] && o[1] == in[1] && o[2] == in[0] && o[3] == in[1], "get<0>/get<1> deliver first/second");
    vf_assert(o[4] == 1 && o[5] == 1 && o[6] == 1 && o[7] == 1, "get<I> refers to the member itself");
}
Q q_p_sb() { RUN(p_sb, 4, 16); vf_assert(o[0] == in[0] && o[1] == in[1] && o[2] == 1 && o[3] == 1, "structured bindings name first and second"); }
Q q_p_rel()
{
    RUN(p_rel, 4, 2);
    // the lexicographic definition, spelled out (ties on the first element included: all four values are symbolic)
    int a1 = in[0], a2 = in[1], b1 = in[2], b2 = in[3];
    bool eq = a1 == b1 && a2 == b2, lt = a1 < b1 || (a1 == b1 && a2 < b2), gt = b1 < a1 || (a1 == b1 && b2 < a2);
    int want = int(eq) | int(!eq) << 1 | int(lt) << 2 | int(!gt) << 3 | int(gt) << 4 | int(!lt) << 5;
    vf_assert(o[0] == want, "==, !=, <, <=, >, >= follow the lexicographic definition");
    vf_assert(o[1] == (1 | 1 << 3 | 1 << 5), "a pair compares equal to itself");
    if (a1 == b1 && a2 != b2) vf_witness("p_rel: tie on the first element");
}
Q q_p_make()
{
    RUN(p_make, 2, 4);
    vf_assert(o[0] == in[0] && o[1] == in[1], "make_pair(x, y)");
    vf_assert(o[2] == after_give(PE1, in[0]) && o[3] == after_give(PE2, in[1]), "make_pair forwards each argument once");
}
Q q_p_tuple_like()
{
    RUN(p_tuple_like, 2, 13);
    vf_assert(o[0] == in[0] && o[1] == in[1] && o[2] == 1 && o[3] == 1, "apply(f, pair) passes first and second themselves");
    vf_assert(o[4] == (in[0] ^ (in[1] << 1)), "apply returns f's result unchanged");
    vf_assert(o[5] == in[0] && o[6] == in[1] && o[7] == 1 && o[8] == 1, "make_from_tuple<T>(const pair&) passes lvalues");
}

#undef OPS
#define OPS TO
// ---- tuple
Q q_t_default() { RUN(t_default, 1, TN); for (int i = 0; i < TN; i++) vf_assert(o[i] == 0, "tuple{} value-initialises every element"); }
Q q_t_ctor_fwd() { RUN(t_ctor_fwd, TN, 3 * TN); for (int i = 0; i < TN; i++) vf_assert(o[i] == in[i], "tuple(args...): get<I> == I-th argument"); }
Q q_t_ctor_clv() { RUN(t_ctor_clv, TN, 2 * TN); for (int i = 0; i < TN; i++) vf_assert(o[i] == in[i] && o[TN + i] == in[i], "tuple(Ts const&...) copies"); }
Q q_t_copy() { RUN(t_copy, TN, 4 * TN); for (int i = 0; i < TN; i++) vf_assert(o[i] == in[i] && o[TN + i] == in[i], "copy construction: equal elements, source unchanged"); }
Q q_t_move() { RUN(t_move, TN, 2 * TN); for (int i = 0; i < TN; i++) vf_assert(o[i] == in[i], "move construction: element values arrive"); }
Q q_t_get() { RUN(t_get, 2 * TN, 8 * TN); }
Q q_t_eq()
{
    RUN(t_eq, 2 * TN, 4);
    bool eq = true;
    for (int i = 0; i < TN; i++) eq = eq && in[i] == in[TN + i];
    vf_assert(o[0] == int(eq) && o[1] == int(!eq), "tuple == / != : all elements equal");
    vf_assert(o[2] == 1 && o[3] == 0, "a tuple equals itself");
    if (TN > 1 && in[0] == in[TN] && !eq) vf_witness("t_eq: first elements tie, a later one differs");
    if (TN > 1 && in[TN - 1] == in[2 * TN - 1] && !eq) vf_witness("t_eq: last elements tie, an earlier one differs");
}
Q q_t_swap()
{
    RUN(t_swap, 2 * TN, 3 * TN);
    for (int i = 0; i < TN; i++) vf_assert(o[i] == in[TN + i] && o[TN + i] == in[i] && o[2 * TN + i] == in[TN + i], "swap exchanges every element; self swap keeps them");
}
Q q_t_apply()
{
    RUN(t_apply, TN, 9 * TN + 4);
    int r = 0;
    for (int i = 0; i < TN; i++) { vf_assert(o[2 * i] == in[i], "apply passes element I as argument I"); r = (r << 1) ^ in[i]; }
    vf_assert(o[2 * TN] == r, "apply returns f's result unchanged");
}
Q q_t_mft()
{
    RUN(t_mft, TN, 6 * TN + 1);
    for (int i = 0; i < TN; i++) vf_assert(o[2 * i] == in[i], "make_from_tuple passes element I as constructor argument I");
    vf_assert(o[2 * TN] == TN, "make_from_tuple passes tuple_size arguments");
}
Q q_t_cat()
{
    RUN(t_cat, 2 * TN + 2, 5 * TN + 3);
    for (int i = 0; i < 2 * TN; i++) vf_assert(o[i] == in[i], "tuple_cat(t, u): elements of t then elements of u");
}
Q q_t_tie()
{
    RUN(t_tie, 2 * TN, 5 * TN);
    for (int i = 0; i < TN; i++) { vf_assert(o[i] == 1, "tie(x...) refers to the variables"); vf_assert(o[TN + i] == in[TN + i], "assignment through tie's references"); }
}
Q q_t_make() { RUN(t_make, TN, 2 * TN); for (int i = 0; i < TN; i++) vf_assert(o[i] == in[i], "make_tuple(args...)"); }
Q q_t_const_ref()
{
    VF_KNOWN(C20_tuple_const_get_reference_element, true);
    RUN(t_const_ref, TN, 5 * TN + 1);
}
#undef OPS
// ---- float elements: unordered values
extern "C" unsigned k_pf_rel(float, float, float, float);
extern "C" unsigned k_tf_eq(float, float, float, float);
Q q_pf_rel()
{
    float a1 = vf_nd_float(), a2 = vf_nd_float(), b1 = vf_nd_float(), b2 = vf_nd_float();
    bool un1 = a1 != a1 || b1 != b1, un2 = a2 != a2 || b2 != b2;
    VF_KNOWN(C20_pair_relational_unordered, un1 || (a1 == b1 && un2));
    std::pair<float, float> const p(a1, a2), q(b1, b2);
    unsigned want = unsigned(p == q) | unsigned(p != q) << 1 | unsigned(p < q) << 2 | unsigned(p <= q) << 3 | unsigned(p > q) << 4 | unsigned(p >= q) << 5;
    vf_assert(k_pf_rel(a1, a2, b1, b2) == want, "relations of pair<float,float> == std::pair<float,float>");
    if (a1 == b1 && a2 < b2) vf_witness("pf_rel: tie on first");
    if (un2 && a1 < b1) vf_witness("pf_rel: NaN in second, first decides");
}
Q q_tf_eq()
{
    float a1 = vf_nd_float(), a2 = vf_nd_float(), b1 = vf_nd_float(), b2 = vf_nd_float();
    std::tuple<float, float> const p(a1, a2), q(b1, b2);
    vf_assert(k_tf_eq(a1, a2, b1, b2) == (unsigned(p == q) | unsigned(p != q) << 1), "== / != of tuple<float,float> == std::tuple<float,float>");
}
