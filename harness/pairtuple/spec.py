import json
import os
PROPERTIES = ['C20', 'C02']
_here = os.path.dirname(os.path.abspath(__file__))
BOUNDS = {
    'quick': 'pair<E1,E2> for 9 element-type combinations and tuple of arity 1..4 for 9 element-type lists out of {int, Tr (copy+move, logged), Mo (move-only), Co (copy-only), int&, int const}; '
             'every operation once per configuration, all element values symbolic over the full int range (relations / equality: both operands symbolic, ties included); pair<float,float> relations over all bit patterns',
    'thorough': 'all 36 ordered element-type combinations for pair; 24 element-type lists for tuple (arity 1..4)',
}
ASSUMPTIONS = [
    'C20: "preserving each element\'s value category" is type-level: static_asserts on decltype in kernel.cpp (compile-time only, not solver evidence); the solver decides its run-time trace: '
    'which elements were copied and which moved (moved-from markers and per-operation counts of copy/move constructions and assignments), compared with std::pair / std::tuple on the same values',
    'C20: an operation is compared only where both etl and std offer it for the element types (decided by the element types with std type traits); expressions that are ill-formed with etl but fine with std are compile-time defects, '
    'listed under C20_EXPECT_FIXED in kernel.cpp and excluded: rvalue get / apply / make_from_tuple / tuple_cat on int& elements, tuple_cat with lvalue tuples or move-only elements (g++), copy assignment of pair<int&,T>, make_tuple(ref(x)), '
    'tuple<>, tuple assignment, converting tuple constructors, structured bindings on tuple (no std::tuple_size specialisation)',
    'C20: std oracle = libstdc++ 12 in C++20 mode, executed symbolically through the same pipeline',
]
# element ids: 0 int, 1 Tr, 2 Mo, 3 Co, 4 int&, 5 int const
PAIRS_Q = [(0, 0), (0, 1), (1, 2), (2, 3), (3, 1), (4, 5), (5, 4), (4, 1), (1, 1)]
TUPLES_Q = [[0], [2], [0, 1], [4, 5], [1, 2, 3], [0, 0, 0], [5, 4, 0], [0, 1, 2, 3], [0, 0, 0, 0]]
PAIRS_T = [(a, b) for a in range(6) for b in range(6)]
TUPLES_T = TUPLES_Q + [[1], [3], [4], [5], [1, 1], [2, 4], [3, 0], [5, 5], [2, 2, 2], [4, 1, 4], [3, 5, 1], [1, 1, 1, 1], [4, 5, 2, 0], [3, 3, 0, 4], [2, 0, 4, 1]]
PAIR_OPS = ['p_default', 'p_ctor_fwd', 'p_ctor_clv', 'p_copy', 'p_move', 'p_conv', 'p_conv_tr', 'p_assign_copy', 'p_assign_move', 'p_assign_conv', 'p_swap',
            'p_get', 'p_sb', 'p_rel', 'p_make', 'p_tuple_like']
TUPLE_OPS = ['t_default', 't_ctor_fwd', 't_ctor_clv', 't_copy', 't_move', 't_get', 't_eq', 't_swap', 't_apply', 't_mft', 't_cat', 't_tie', 't_make', 't_const_ref']


def applicable(op, es):
    """mirrors the if-constexpr guards in ops.h (std type traits of the element types)"""
    al = lambda ok: all(e in ok for e in es)
    if op in ('p_default', 't_default'): return al({0, 1, 2, 3, 5})
    if op in ('p_ctor_clv', 'p_copy', 't_ctor_clv', 't_copy'): return al({0, 1, 3, 4, 5})
    if op == 'p_conv': return al({0, 1, 2, 3, 5})
    if op == 'p_conv_tr': return al({1})
    if op == 'p_assign_copy': return al({0, 1, 3})
    if op in ('p_assign_move', 'p_assign_conv', 'p_swap', 't_swap'): return al({0, 1, 2, 3, 4})
    if op == 't_cat': return al({0, 1, 3})
    if op == 't_const_ref': return 4 in es
    return True


def open_findings():
    try:
        import sys
        sys.path.insert(0, os.path.join(os.path.dirname(os.path.dirname(_here)), 'engine'))
        import runner
        return {k['id'] for k in runner.load_findings().get('open', [])}
    except Exception:
        kp = os.path.join(_here, 'kf.json')
        return {k['id'] for k in json.load(open(kp))} if os.path.exists(kp) else set()


def queries(tier, prop='C20'):
    ub = prop == 'C02'
    pairs, tuples = (PAIRS_Q, TUPLES_Q) if tier == 'quick' else (PAIRS_T, TUPLES_T)
    out = []
    base = dict(ub=ub, nofunc=ub, budget=120, unwind=48)
    opn = open_findings()
    n = max(len(pairs), len(tuples))
    seen_tie = set()
    for i in range(n):
        if ub and tier == 'quick' and i not in (1, 4, 5, 7):    # C02 (UB build): a subset of the configurations
            continue
        p = pairs[i % len(pairs)]
        t = tuples[i % len(tuples)]
        cfg = {'PE1': p[0], 'PE2': p[1], 'TN': len(t)}
        for k, e in enumerate(t):
            cfg['TE%d' % k] = e
        if i < len(pairs):
            for op in PAIR_OPS:
                if applicable(op, p):
                    out.append(dict(entry='q_' + op, cfg=cfg, **base))
        if i < len(tuples):
            for op in TUPLE_OPS:
                if op == 't_tie':       # tie / forward_as_tuple / make_tuple over ints: depends on the arity only
                    if len(t) in seen_tie: continue
                    seen_tie.add(len(t))
                if applicable(op, t):
                    q = dict(entry='q_' + op, cfg=cfg, **base)
                    if op == 't_const_ref' and 'C20_tuple_const_get_reference_element' in opn:
                        q['confirm_only'] = True     # the whole query lies inside the open known-finding region
                    out.append(q)
        if i == 0:
            out.append(dict(entry='q_pf_rel', cfg=cfg, **base))
            out.append(dict(entry='q_tf_eq', cfg=cfg, **base))
    return out
