// C20 kernels (pair / tuple): thin wrappers; the operations themselves are written once in ops.h against the alias LIB
// (= etl here, = std in the driver). No logic besides marshalling.
#include "vf.h"
#include <etl/utility.hpp>
#include <etl/tuple.hpp>
#include <etl/functional.hpp>
namespace LIB = etl;
#include "ops.h"

// ---- type-level part of C20 ("preserving each element's value category", result types): compile-time only, reported as
// such in ASSUMPTIONS; a regression here breaks the build of the check. Not solver evidence.
namespace typelevel {
template <typename A, typename B> inline constexpr bool same = etl::is_same_v<A, B>;
using PT = etl::pair<Tr, int const>;
static_assert(same<decltype(etl::get<0>(etl::declval<PT&>())), Tr&>);
static_assert(same<decltype(etl::get<0>(etl::declval<PT const&>())), Tr const&>);
static_assert(same<decltype(etl::get<0>(etl::declval<PT&&>())), Tr&&>);
static_assert(same<decltype(etl::get<0>(etl::declval<PT const&&>())), Tr const&&>);
static_assert(same<decltype(etl::get<1>(etl::declval<PT&>())), int const&>);
static_assert(same<decltype(etl::get<1>(etl::declval<PT&&>())), int const&&>);
static_assert(same<decltype(etl::make_pair(1, etl::declval<Tr&>())), etl::pair<int, Tr>>);
static_assert(same<etl::tuple_element_t<0, PT>, Tr> && same<etl::tuple_element_t<1, PT>, int const> && etl::tuple_size_v<PT> == 2);
using T3 = etl::tuple<int, Mo, int const>;
static_assert(same<decltype(etl::get<1>(etl::declval<T3&>())), Mo&>);
static_assert(same<decltype(etl::get<1>(etl::declval<T3 const&>())), Mo const&>);
static_assert(same<decltype(etl::get<1>(etl::declval<T3&&>())), Mo&&>);
static_assert(same<decltype(etl::get<1>(etl::declval<T3 const&&>())), Mo const&&>);
static_assert(same<decltype(etl::get<2>(etl::declval<T3&>())), int const&>);
static_assert(same<etl::tuple_element_t<1, T3>, Mo> && etl::tuple_size_v<T3> == 3);
static_assert(same<decltype(etl::get<0>(etl::declval<etl::tuple<int&>&>())), int&>);
static_assert(same<decltype(etl::tie(etl::declval<int&>(), etl::declval<Tr&>())), etl::tuple<int&, Tr&>>);
static_assert(same<decltype(etl::forward_as_tuple(etl::declval<int&>(), etl::declval<Tr>())), etl::tuple<int&, Tr&&>>);
static_assert(same<decltype(etl::make_tuple(1, etl::declval<Tr&>())), etl::tuple<int, Tr>>);
static_assert(same<decltype(etl::tuple_cat(etl::declval<etl::tuple<int, Co>>(), etl::declval<etl::pair<Tr, long>>())), etl::tuple<int, Co, Tr, long>>);
static_assert(same<decltype(etl::apply(etl::declval<int (*)(int, Mo&&)>(), etl::declval<etl::tuple<int, Mo>>())), int>);
static_assert(same<decltype(etl::forward_like<Tr const&>(etl::declval<Mo&>())), Mo const&>);
static_assert(same<decltype(etl::forward_like<Tr>(etl::declval<Mo&>())), Mo&&>);
// Known compile-time defects of the pinned tree (the expressions below are ill-formed with etl and fine with std; they are
// outside what a solver can decide and are reported in the evidence text / final report, enable after a fix):
#ifdef C20_EXPECT_FIXED
static_assert(etl::is_constructible_v<etl::tuple<int&>, etl::tuple<int&>&>);                          // is "true" today but instantiating it is a hard error: the Args&&... constructor wins for a 1-tuple
static_assert(same<decltype(etl::tuple_cat(etl::declval<etl::tuple<int, Mo>>())), etl::tuple<int, Mo>>);      // tuple_cat.hpp:32 CTAD: ill-formed for move-only elements with g++ 12
static_assert(same<decltype(etl::get<0>(etl::declval<etl::pair<int&, int>&&>())), int&>);          // pair.hpp:276/278, 291/293: etl::move(p.first) cannot bind to the int& return type
static_assert(same<decltype(etl::make_tuple(etl::ref(etl::declval<int&>()))), etl::tuple<int&>>);   // tuple_leaf<I,int&>{reference_wrapper<int>}: brace-init of a reference from a class type
static_assert(!etl::is_constructible_v<etl::pair<int&, int>, etl::pair<int, int> const&>);        // etl::is_constructible<int&, int const&> is true (functional cast), so pair's constraints let it through to a hard error
static_assert(same<decltype(etl::get<0>(etl::declval<etl::tuple<int&>&&>())), int&>);          // tuple_leaf<I,T&>::get_impl() && returns etl::move(_value)
static_assert(same<decltype(etl::tuple_cat(etl::declval<etl::tuple<int>&>())), etl::tuple<int>>); // tuple_cat with an lvalue tuple (same root cause)
static_assert(etl::tuple<>{} == etl::tuple<>{});                                                  // tuple<> cannot be instantiated (tuple.hpp:156), operator== would return false
static_assert(etl::is_copy_assignable_v<etl::pair<int&, int>>);                                   // pair.hpp:100 defaulted copy assignment is deleted for reference members
static_assert(etl::is_assignable_v<etl::tuple<int>&, etl::tuple<int> const&>);                    // tuple has no assignment operators at all
static_assert(etl::is_constructible_v<etl::tuple<long, long>, etl::tuple<int, int> const&>);      // no converting constructors, none from pair
#endif
} // namespace typelevel

#define X(name, nin, nout) K bool k_##name(int const* in, int* out) { return PO::op_##name(in, out); }
C20_PAIR_OPS(X)
#undef X
#define X(name, nin, nout) K bool k_##name(int const* in, int* out) { return TO::op_##name(in, out); }
C20_TUPLE_OPS(X)
#undef X

// relations of pair<float,float> (NaN: unordered elements)
K unsigned k_pf_rel(float a1, float a2, float b1, float b2)
{
    etl::pair<float, float> const p(a1, a2), q(b1, b2);
    return unsigned(p == q) | unsigned(p != q) << 1 | unsigned(p < q) << 2 | unsigned(p <= q) << 3 | unsigned(p > q) << 4 | unsigned(p >= q) << 5;
}
K unsigned k_tf_eq(float a1, float a2, float b1, float b2)
{
    etl::tuple<float, float> const p(a1, a2), q(b1, b2);
    return unsigned(p == q) | unsigned(p != q) << 1;
}
