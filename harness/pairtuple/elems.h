// C20 pair/tuple: element types and the element-operation log. Shared by kernel.cpp and driver.cpp; contains no tetl code.
// Element type ids (cfg macros PE1/PE2 for the pair, TE0..TE3 for the tuple):
//   0 int   1 Tr (copyable + movable, every special member logged)   2 Mo (move-only)   3 Co (copy-only: no move operations)
//   4 int&  5 int const
// A moved-from Tr/Mo holds E_MOVED, so "was this element moved or copied" is visible in the values as well as in the log.
#ifndef C20_ELEMS_H
#define C20_ELEMS_H
#include "vf.h"
#include <type_traits>
#include <utility>
extern "C" {
extern int vf_elog[8]; // defined in driver.cpp
}
enum { L_VAL = 0, L_COPY, L_MOVE, L_CASSIGN, L_MASSIGN, L_DTOR, L_SWAP, L_DEFAULT };
#define E_MOVED 0x4d4f5645
struct Tr {
    int v;
    Tr() : v(0) { ++vf_elog[L_DEFAULT]; }
    Tr(int x) : v(x) { ++vf_elog[L_VAL]; }
    Tr(Tr const& o) : v(o.v) { ++vf_elog[L_COPY]; }
    Tr(Tr&& o) noexcept : v(o.v) { o.v = E_MOVED; ++vf_elog[L_MOVE]; }
    Tr& operator=(Tr const& o) { v = o.v; ++vf_elog[L_CASSIGN]; return *this; }
    Tr& operator=(Tr&& o) noexcept { int t = o.v; o.v = E_MOVED; v = t; ++vf_elog[L_MASSIGN]; return *this; }
    ~Tr() { ++vf_elog[L_DTOR]; }
    friend bool operator==(Tr const& a, Tr const& b) { return a.v == b.v; }
    friend bool operator<(Tr const& a, Tr const& b) { return a.v < b.v; }
    friend void swap(Tr& a, Tr& b) noexcept { int t = a.v; a.v = b.v; b.v = t; ++vf_elog[L_SWAP]; }
};
struct Mo {
    int v;
    Mo() : v(0) { ++vf_elog[L_DEFAULT]; }
    Mo(int x) : v(x) { ++vf_elog[L_VAL]; }
    Mo(Mo const&) = delete;
    Mo(Mo&& o) noexcept : v(o.v) { o.v = E_MOVED; ++vf_elog[L_MOVE]; }
    Mo& operator=(Mo const&) = delete;
    Mo& operator=(Mo&& o) noexcept { int t = o.v; o.v = E_MOVED; v = t; ++vf_elog[L_MASSIGN]; return *this; }
    ~Mo() { ++vf_elog[L_DTOR]; }
    friend bool operator==(Mo const& a, Mo const& b) { return a.v == b.v; }
    friend bool operator<(Mo const& a, Mo const& b) { return a.v < b.v; }
};
struct Co {
    int v;
    Co() : v(0) { ++vf_elog[L_DEFAULT]; }
    Co(int x) : v(x) { ++vf_elog[L_VAL]; }
    Co(Co const& o) : v(o.v) { ++vf_elog[L_COPY]; }
    Co& operator=(Co const& o) { v = o.v; ++vf_elog[L_CASSIGN]; return *this; }
    ~Co() { ++vf_elog[L_DTOR]; }
    friend bool operator==(Co const& a, Co const& b) { return a.v == b.v; }
    friend bool operator<(Co const& a, Co const& b) { return a.v < b.v; }
};
template <int ID> struct ElemOf;
template <> struct ElemOf<0> { using type = int; };
template <> struct ElemOf<1> { using type = Tr; };
template <> struct ElemOf<2> { using type = Mo; };
template <> struct ElemOf<3> { using type = Co; };
template <> struct ElemOf<4> { using type = int&; };
template <> struct ElemOf<5> { using type = int const; };
template <int ID> using Elem = typename ElemOf<ID>::type;

static inline int val(int const& x) { return x; }
static inline int val(Tr const& x) { return x.v; }
static inline int val(Mo const& x) { return x.v; }
static inline int val(Co const& x) { return x.v; }
static inline void setv(int& x, int v) { x = v; }
static inline void setv(Tr& x, int v) { x.v = v; }
static inline void setv(Mo& x, int v) { x.v = v; }
static inline void setv(Co& x, int v) { x.v = v; }

template <typename T> static inline T const& cst(T& x) { return x; }
template <typename T> static inline T&& mv(T& x) { return static_cast<T&&>(x); }
template <typename T> static inline T const&& cmv(T& x) { return static_cast<T const&&>(x); }

// the object an element is initialised from: give() hands it over the way that element type is meant to be fed
// (int / int const: a prvalue copy, Tr / Mo: an rvalue, Co: a const lvalue, int&: the lvalue itself)
template <typename E> struct Src {
    using B = std::remove_cv_t<std::remove_reference_t<E>>;
    static constexpr bool is_ref = std::is_reference_v<E>;
    B b;
    explicit Src(int v) : b(v) { }
    decltype(auto) give()
    {
        if constexpr (is_ref) return (b);
        else if constexpr (std::is_same_v<B, int>) return int(b);
        else if constexpr (std::is_same_v<B, Co>) return static_cast<B const&>(b);
        else return static_cast<B&&>(b);
    }
    decltype(auto) clv() // lvalue for the (T const&...) constructors
    {
        if constexpr (is_ref) return (b);
        else return static_cast<B const&>(b);
    }
};
#endif
