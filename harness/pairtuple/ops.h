// C20 pair/tuple: every operation is written once against the namespace alias LIB. kernel.cpp includes this file with
// LIB = etl (the real tetl code), driver.cpp with LIB = std (oracle: libstdc++ std::pair / std::tuple through the same
// pipeline). Internal linkage throughout, so the two instantiations never merge.
// Signature of every operation: bool op(int const* in, int* out) - in[] are the symbolic element values, out[] receives the
// observable element values afterwards; the return value says whether the operation exists for the configured element
// types (decided by the element types / LIB's own constraints at compile time; availability itself is type-level).
// The element-operation log vf_elog (copies, moves, assignments, swaps, destructions of Tr/Mo/Co elements) is read by the
// driver after each call.
#ifndef C20_PT_OPS_H
#define C20_PT_OPS_H
#include "elems.h"
#ifndef PE1
#define PE1 0
#endif
#ifndef PE2
#define PE2 1
#endif
#ifndef TN
#define TN 3
#endif
#ifndef TE0
#define TE0 0
#endif
#ifndef TE1
#define TE1 1
#endif
#ifndef TE2
#define TE2 0
#endif
#ifndef TE3
#define TE3 0
#endif
namespace {
struct Out {
    int* p;
    void val(int v) { *p++ = v; }
};
template <typename E> inline constexpr bool is_ref_e = std::is_reference_v<E>;
template <typename E> inline constexpr bool is_const_e = std::is_const_v<std::remove_reference_t<E>>;
template <typename E> using base_t = std::remove_cv_t<std::remove_reference_t<E>>;

// ====================================================================================================================
// pair
// ====================================================================================================================
struct Rec2 {
    int a, b, fa, fb;
    template <typename A, typename B>
    Rec2(A&& x, B&& y) : a(val(x)), b(val(y)), fa(std::is_rvalue_reference_v<A&&> ? 2 : 1), fb(std::is_rvalue_reference_v<B&&> ? 2 : 1) { }
};
// (a class template so that the bodies are dependent: operations an element type does not support are discarded by if constexpr)
template <typename E1, typename E2>
struct PairOps {
using B1 = base_t<E1>;
using B2 = base_t<E2>;
using P = LIB::pair<E1, E2>;
using PI = LIB::pair<int, int>;
static constexpr bool p_has_ref = is_ref_e<E1> || is_ref_e<E2>;
static constexpr bool p_copyable = std::is_copy_constructible_v<E1> && std::is_copy_constructible_v<E2>;
static constexpr bool p_movable = std::is_move_constructible_v<E1> && std::is_move_constructible_v<E2>;

// P{}: value-initialised elements
static bool op_p_default(int const*, int* out)
{
    if constexpr (std::is_default_constructible_v<E1> && std::is_default_constructible_v<E2>) {
        Out o{out};
        P p{};
        o.val(val(p.first)); o.val(val(p.second));
        return true;
    } else return false;
}
// pair(U1&&, U2&&) with each element fed the way its type wants (rvalue for movable types, lvalue for int&, ...)
static bool op_p_ctor_fwd(int const* in, int* out)
{
    Out o{out};
    Src<E1> s1(in[0]); Src<E2> s2(in[1]);
    P p(s1.give(), s2.give());
    o.val(val(p.first)); o.val(val(p.second)); o.val(val(s1.b)); o.val(val(s2.b));
    if constexpr (is_ref_e<E1>) o.val(&p.first == &s1.b);
    if constexpr (is_ref_e<E2>) o.val(&p.second == &s2.b);
    return true;
}
// pair(T1 const&, T2 const&)
static bool op_p_ctor_clv(int const* in, int* out)
{
    if constexpr (std::is_copy_constructible_v<E1> && std::is_copy_constructible_v<E2>) {
        Out o{out};
        Src<E1> s1(in[0]); Src<E2> s2(in[1]);
        P p(s1.clv(), s2.clv());
        o.val(val(p.first)); o.val(val(p.second)); o.val(val(s1.b)); o.val(val(s2.b));
        return true;
    } else return false;
}
static bool op_p_copy(int const* in, int* out)
{
    if constexpr (p_copyable) {
        Out o{out};
        Src<E1> s1(in[0]); Src<E2> s2(in[1]);
        P p(s1.give(), s2.give());
        P q(cst(p));
        o.val(val(q.first)); o.val(val(q.second)); o.val(val(p.first)); o.val(val(p.second));
        P r(p); // non-const lvalue source
        o.val(val(r.first)); o.val(val(r.second)); o.val(val(p.first)); o.val(val(p.second));
        return true;
    } else return false;
}
static bool op_p_move(int const* in, int* out)
{
    if constexpr (p_movable) {
        Out o{out};
        Src<E1> s1(in[0]); Src<E2> s2(in[1]);
        P p(s1.give(), s2.give());
        P q(mv(p));
        o.val(val(q.first)); o.val(val(q.second)); o.val(val(p.first)); o.val(val(p.second));
        return true;
    } else return false;
}
// converting constructors from pair<int,int> const& / &&
static bool op_p_conv(int const* in, int* out)
{
    if constexpr (std::is_constructible_v<E1, int const&> && std::is_constructible_v<E2, int const&> && std::is_constructible_v<E1, int&&> && std::is_constructible_v<E2, int&&>) {
        Out o{out};
        PI a(in[0], in[1]);
        P p(cst(a));
        o.val(val(p.first)); o.val(val(p.second)); o.val(a.first); o.val(a.second);
        P q(mv(a));
        o.val(val(q.first)); o.val(val(q.second));
        return true;
    } else return false;
}
// converting constructor from a pair of tracked elements: pair<Tr,Tr> const& copies, && moves each element
static bool op_p_conv_tr(int const* in, int* out)
{
    using PT = LIB::pair<Tr, Tr>;
    if constexpr (std::is_constructible_v<E1, Tr&&> && std::is_constructible_v<E2, Tr&&> && !p_has_ref) {
        Out o{out};
        PT a(Tr{in[0]}, Tr{in[1]});
        P q(mv(a));
        o.val(val(q.first)); o.val(val(q.second)); o.val(val(a.first)); o.val(val(a.second));
        return true;
    } else return false;
}
static bool op_p_assign_copy(int const* in, int* out)
{
    // (pairs with an int& element are left out: etl::pair<int&, T>'s defaulted copy assignment is deleted although std::pair
    // assigns through the reference - compile-time defect, see kernel.cpp)
    if constexpr (std::is_copy_assignable_v<E1> && std::is_copy_assignable_v<E2> && !p_has_ref) {
        Out o{out};
        Src<E1> s1(in[0]); Src<E2> s2(in[1]); Src<E1> t1(in[2]); Src<E2> t2(in[3]);
        P p(s1.give(), s2.give()); P q(t1.give(), t2.give());
        P& r = (p = cst(q));
        o.val(&r == &p);
        o.val(val(p.first)); o.val(val(p.second)); o.val(val(q.first)); o.val(val(q.second));
        o.val(val(s1.b)); o.val(val(s2.b)); o.val(val(t1.b)); o.val(val(t2.b));
        p = cst(p); // self assignment
        o.val(val(p.first)); o.val(val(p.second));
        return true;
    } else return false;
}
static bool op_p_assign_move(int const* in, int* out)
{
    if constexpr (std::is_move_assignable_v<E1> && std::is_move_assignable_v<E2>) {
        Out o{out};
        Src<E1> s1(in[0]); Src<E2> s2(in[1]); Src<E1> t1(in[2]); Src<E2> t2(in[3]);
        P p(s1.give(), s2.give()); P q(t1.give(), t2.give());
        P& r = (p = mv(q));
        o.val(&r == &p);
        o.val(val(p.first)); o.val(val(p.second)); o.val(val(q.first)); o.val(val(q.second));
        o.val(val(s1.b)); o.val(val(s2.b)); o.val(val(t1.b)); o.val(val(t2.b));
        return true;
    } else return false;
}
// converting assignment from pair<int,int> const& / &&
static bool op_p_assign_conv(int const* in, int* out)
{
    if constexpr (std::is_assignable_v<E1&, int const&> && std::is_assignable_v<E2&, int const&> && std::is_assignable_v<E1&, int&&> && std::is_assignable_v<E2&, int&&>) {
        Out o{out};
        Src<E1> s1(in[0]); Src<E2> s2(in[1]);
        P p(s1.give(), s2.give());
        PI a(in[2], in[3]); PI b(in[4], in[5]);
        p = cst(a);
        o.val(val(p.first)); o.val(val(p.second)); o.val(val(s1.b)); o.val(val(s2.b));
        p = mv(b);
        o.val(val(p.first)); o.val(val(p.second)); o.val(val(s1.b)); o.val(val(s2.b));
        return true;
    } else return false;
}
static bool op_p_swap(int const* in, int* out)
{
    if constexpr (std::is_swappable_v<E1> && std::is_swappable_v<E2> && !is_const_e<E1> && !is_const_e<E2>) {
        Out o{out};
        Src<E1> s1(in[0]); Src<E2> s2(in[1]); Src<E1> t1(in[2]); Src<E2> t2(in[3]);
        P p(s1.give(), s2.give()); P q(t1.give(), t2.give());
        p.swap(q);
        o.val(val(p.first)); o.val(val(p.second)); o.val(val(q.first)); o.val(val(q.second));
        using LIB::swap;
        swap(p, q);
        o.val(val(p.first)); o.val(val(p.second)); o.val(val(q.first)); o.val(val(q.second));
        p.swap(p); // self swap
        o.val(val(p.first)); o.val(val(p.second));
        return true;
    } else return false;
}
// get<0>/get<1> on &, const&, && and const&&
static bool op_p_get(int const* in, int* out)
{
    Out o{out};
    Src<E1> s1(in[0]); Src<E2> s2(in[1]);
    P p(s1.give(), s2.give());
    o.val(val(LIB::get<0>(p))); o.val(val(LIB::get<1>(p)));
    o.val(val(LIB::get<0>(cst(p)))); o.val(val(LIB::get<1>(cst(p))));
    o.val(&LIB::get<0>(p) == &p.first); o.val(&LIB::get<1>(p) == &p.second);
    o.val(&LIB::get<0>(cst(p)) == &p.first); o.val(&LIB::get<1>(cst(p)) == &p.second);
    if constexpr (!is_const_e<E1> && !is_ref_e<E1>) { setv(LIB::get<0>(p), in[2]); o.val(val(p.first)); }
    if constexpr (!is_const_e<E2> && !is_ref_e<E2>) { setv(LIB::get<1>(p), in[3]); o.val(val(p.second)); }
    // const&&: binds to a copy (where the element can be copied)
    // (rvalue access to an int& element is left out: etl::get<I>(pair<int&,T>&&) / (pair const&&) do not compile, see kernel.cpp)
    if constexpr (std::is_copy_constructible_v<B1> && !is_ref_e<E1>) { B1 c(LIB::get<0>(cmv(p))); o.val(val(c)); o.val(val(p.first)); }
    if constexpr (std::is_copy_constructible_v<B2> && !is_ref_e<E2>) { B2 c(LIB::get<1>(cmv(p))); o.val(val(c)); o.val(val(p.second)); }
    // &&: the element is taken as an rvalue (moved where it has a move constructor)
    if constexpr (!is_const_e<E1> && !is_ref_e<E1>) { B1 t(LIB::get<0>(mv(p))); o.val(val(t)); o.val(val(p.first)); }
    if constexpr (!is_const_e<E2> && !is_ref_e<E2>) { B2 t(LIB::get<1>(mv(p))); o.val(val(t)); o.val(val(p.second)); }
    return true;
}
// structured bindings (pair has public data members)
static bool op_p_sb(int const* in, int* out)
{
    Out o{out};
    Src<E1> s1(in[0]); Src<E2> s2(in[1]);
    P p(s1.give(), s2.give());
    {
        auto& [x, y] = p;
        o.val(val(x)); o.val(val(y)); o.val(&x == &p.first); o.val(&y == &p.second);
        if constexpr (!is_const_e<E1>) { setv(x, in[2]); o.val(val(p.first)); }
        if constexpr (!is_const_e<E2>) { setv(y, in[3]); o.val(val(p.second)); }
    }
    {
        auto const& [x, y] = p;
        o.val(val(x)); o.val(val(y));
    }
    if constexpr (p_copyable) {
        auto [x, y] = p; // copy of the pair
        o.val(val(x)); o.val(val(y)); o.val(val(p.first)); o.val(val(p.second));
    }
    if constexpr (p_movable) {
        auto [x, y] = mv(p); // move of the pair
        o.val(val(x)); o.val(val(y)); o.val(val(p.first)); o.val(val(p.second));
    }
    return true;
}
// the six relations (and !=) of two pairs; bit i: ==, !=, <, <=, >, >=
static bool op_p_rel(int const* in, int* out)
{
    Out o{out};
    Src<E1> s1(in[0]); Src<E2> s2(in[1]); Src<E1> t1(in[2]); Src<E2> t2(in[3]);
    P const p(s1.give(), s2.give()); P const q(t1.give(), t2.give());
    o.val(int(p == q) | int(p != q) << 1 | int(p < q) << 2 | int(p <= q) << 3 | int(p > q) << 4 | int(p >= q) << 5);
    o.val(int(p == p) | int(p != p) << 1 | int(p < p) << 2 | int(p <= p) << 3 | int(p > p) << 4 | int(p >= p) << 5);
    return true;
}
// make_pair: decayed element types, each argument forwarded once
static bool op_p_make(int const* in, int* out)
{
    Out o{out};
    Src<E1> s1(in[0]); Src<E2> s2(in[1]);
    auto p = LIB::make_pair(s1.give(), s2.give());
    o.val(val(p.first)); o.val(val(p.second)); o.val(val(s1.b)); o.val(val(s2.b));
    return true;
}
// pair through the tuple-like protocol: apply / make_from_tuple / tuple_cat
static bool op_p_tuple_like(int const* in, int* out)
{
    Out o{out};
    Src<E1> s1(in[0]); Src<E2> s2(in[1]);
    P p(s1.give(), s2.give());
    int r = LIB::apply([&](auto&& x, auto&& y) { o.val(val(x)); o.val(val(y)); o.val(&x == &p.first); o.val(&y == &p.second); return val(x) ^ (val(y) << 1); }, p);
    o.val(r);
    Rec2 m = LIB::make_from_tuple<Rec2>(cst(p));
    o.val(m.a); o.val(m.b); o.val(m.fa); o.val(m.fb);
    if constexpr (!p_has_ref) {
        Rec2 n = LIB::make_from_tuple<Rec2>(mv(p));
        o.val(n.a); o.val(n.b); o.val(n.fa); o.val(n.fb);
    }
    return true;
}
}; // PairOps
using PO = PairOps<Elem<PE1>, Elem<PE2>>;
#define C20_PAIR_OPS(X) \
    X(p_default, 1, 2) X(p_ctor_fwd, 2, 6) X(p_ctor_clv, 2, 4) X(p_copy, 2, 8) X(p_move, 2, 4) X(p_conv, 2, 6) X(p_conv_tr, 2, 4) \
    X(p_assign_copy, 4, 11) X(p_assign_move, 4, 9) X(p_assign_conv, 6, 8) X(p_swap, 4, 10) X(p_get, 4, 18) X(p_sb, 4, 16) X(p_rel, 4, 2) \
    X(p_make, 2, 4) X(p_tuple_like, 2, 13)

// ====================================================================================================================
// tuple (arity TN, element ids TE0..TE3)
// ====================================================================================================================
template <int N> struct TupOf;
template <> struct TupOf<1> { template <template <typename...> class T> using ap = T<Elem<TE0>>; };
template <> struct TupOf<2> { template <template <typename...> class T> using ap = T<Elem<TE0>, Elem<TE1>>; };
template <> struct TupOf<3> { template <template <typename...> class T> using ap = T<Elem<TE0>, Elem<TE1>, Elem<TE2>>; };
template <> struct TupOf<4> { template <template <typename...> class T> using ap = T<Elem<TE0>, Elem<TE1>, Elem<TE2>, Elem<TE3>>; };
template <typename... Es> struct TypeList { };
using TL = TupOf<TN>::ap<TypeList>;
template <size_t I, typename L> struct NthOf;
template <typename H, typename... R> struct NthOf<0, TypeList<H, R...>> { using type = H; };
template <size_t I, typename H, typename... R> struct NthOf<I, TypeList<H, R...>> { using type = typename NthOf<I - 1, TypeList<R...>>::type; };
template <size_t I> struct NthOf<I, TypeList<>> { using type = int; };
// apply: the callee records the value and the reference flavour (1 = lvalue, 2 = const lvalue, 3 = rvalue, 4 = const rvalue)
// of every argument; its result is handed back
struct Collect {
    Out* o;
    template <typename A> static int flav() { return std::is_lvalue_reference_v<A> ? (std::is_const_v<std::remove_reference_t<A>> ? 2 : 1) : (std::is_const_v<std::remove_reference_t<A>> ? 4 : 3); }
    template <typename... A> int operator()(A&&... a) const
    {
        int r = 0;
        ((o->val(val(a)), o->val(flav<A&&>()), r = (r << 1) ^ val(a)), ...);
        return r;
    }
};
// make_from_tuple: constructor arguments arrive with the value category of the tuple
struct RecN {
    int v[4]; int f[4]; int n;
    template <typename... A> RecN(A&&... a) : v{val(a)...}, f{Collect::flav<A&&>()...}, n(sizeof...(A)) { }
};
template <typename L> struct TupleOps;
template <typename... Es>
struct TupleOps<TypeList<Es...>> {
using TT = LIB::tuple<Es...>;
template <size_t I> using TE = typename NthOf<I, TypeList<Es...>>::type;
using Idx = std::make_index_sequence<TN>;
static constexpr bool t_has_ref = (is_ref_e<Es> || ...);
static constexpr bool t_has_const = (is_const_e<Es> || ...);
static constexpr bool t_copyable = (std::is_copy_constructible_v<Es> && ...);
static constexpr bool t_movable = (std::is_move_constructible_v<Es> && ...);
// the sources of all elements (always four, only the first TN are used)
struct Srcs {
    Src<TE<0>> s0; Src<TE<1>> s1; Src<TE<2>> s2; Src<TE<3>> s3;
    explicit Srcs(int const* in) : s0(in[0]), s1(in[TN > 1 ? 1 : 0]), s2(in[TN > 2 ? 2 : 0]), s3(in[TN > 3 ? 3 : 0]) { }
    template <size_t I> auto& at()
    {
        if constexpr (I == 0) return s0;
        else if constexpr (I == 1) return s1;
        else if constexpr (I == 2) return s2;
        else return s3;
    }
};
template <size_t... Is> static TT make_tt(Srcs& s, std::index_sequence<Is...>) { return TT(s.template at<Is>().give()...); }
template <size_t... Is> static void dump(Out& o, TT const& t, std::index_sequence<Is...>) { (o.val(val(LIB::get<Is>(t))), ...); }
template <size_t... Is> static void dump_src(Out& o, Srcs& s, std::index_sequence<Is...>) { (o.val(val(s.template at<Is>().b)), ...); }

static bool op_t_default(int const*, int* out)
{
    if constexpr ((std::is_default_constructible_v<Es> && ...)) {
        Out o{out};
        TT t{};
        dump(o, t, Idx{});
        return true;
    } else return false;
}
static bool op_t_ctor_fwd(int const* in, int* out)
{
    Out o{out};
    Srcs s(in);
    TT t = make_tt(s, Idx{});
    dump(o, t, Idx{}); dump_src(o, s, Idx{});
    [&]<size_t... Is>(std::index_sequence<Is...>) {
        ([&] { if constexpr (is_ref_e<TE<Is>>) o.val(&LIB::get<Is>(t) == &s.template at<Is>().b); }(), ...);
    }(Idx{});
    return true;
}
static bool op_t_ctor_clv(int const* in, int* out)
{
    if constexpr (t_copyable) {
        Out o{out};
        Srcs s(in);
        [&]<size_t... Is>(std::index_sequence<Is...>) {
            TT t(s.template at<Is>().clv()...);
            dump(o, t, Idx{}); dump_src(o, s, Idx{});
        }(Idx{});
        return true;
    } else return false;
}
static bool op_t_copy(int const* in, int* out)
{
    if constexpr (t_copyable) {
        Out o{out};
        Srcs s(in);
        TT t = make_tt(s, Idx{});
        TT u(cst(t));
        dump(o, u, Idx{}); dump(o, t, Idx{});
        // (not for tuple<int&>: copying a non-const etl::tuple<int&> selects the converting constructor template, because
        // etl::is_constructible_v<int&, tuple<int&>&> is true (functional cast), and fails to compile - see kernel.cpp)
        if constexpr (!(TN == 1 && t_has_ref)) {
            TT w(t); // non-const lvalue source
            dump(o, w, Idx{}); dump(o, t, Idx{});
        }
        return true;
    } else return false;
}
static bool op_t_move(int const* in, int* out)
{
    if constexpr (t_movable) {
        Out o{out};
        Srcs s(in);
        TT t = make_tt(s, Idx{});
        TT u(mv(t));
        dump(o, u, Idx{}); dump(o, t, Idx{});
        return true;
    } else return false;
}
// get<I> on &, const&, &&, const&& for every index
template <size_t I> static void get_one(Out& o, TT& t, int nv)
{
    using E = TE<I>;
    using B = base_t<E>;
    o.val(val(LIB::get<I>(t))); o.val(val(LIB::get<I>(cst(t))));
    o.val(&LIB::get<I>(t) == &LIB::get<I>(cst(t)));
    if constexpr (!is_const_e<E>) { setv(LIB::get<I>(t), nv); o.val(val(LIB::get<I>(cst(t)))); }
    // rvalue access to an int& element is left out for both libraries: etl::get<I>(tuple<int&>&&) does not compile
    // (tuple_leaf<I, T&>::get_impl() && returns etl::move(_value)) - compile-time defect, see kernel.cpp
    if constexpr (!is_ref_e<E>) {
        if constexpr (std::is_copy_constructible_v<B>) { B c(LIB::get<I>(cmv(t))); o.val(val(c)); o.val(val(LIB::get<I>(cst(t)))); }
        if constexpr (!is_const_e<E>) { B m(LIB::get<I>(mv(t))); o.val(val(m)); o.val(val(LIB::get<I>(cst(t)))); }
    }
}
static bool op_t_get(int const* in, int* out)
{
    Out o{out};
    Srcs s(in);
    TT t = make_tt(s, Idx{});
    [&]<size_t... Is>(std::index_sequence<Is...>) { (get_one<Is>(o, t, in[TN + Is]), ...); }(Idx{});
    return true;
}
static bool op_t_eq(int const* in, int* out)
{
    Out o{out};
    Srcs s(in); Srcs r(in + TN);
    TT const t = make_tt(s, Idx{}); TT const u = make_tt(r, Idx{});
    o.val(t == u); o.val(t != u); o.val(t == t); o.val(u != u);
    return true;
}
static bool op_t_swap(int const* in, int* out)
{
    if constexpr (!t_has_const && (std::is_swappable_v<Es> && ...)) {
        Out o{out};
        Srcs s(in); Srcs r(in + TN);
        TT t = make_tt(s, Idx{}); TT u = make_tt(r, Idx{});
        t.swap(u);
        dump(o, t, Idx{}); dump(o, u, Idx{});
        t.swap(t); // self swap
        dump(o, t, Idx{});
        return true;
    } else return false;
}
static bool op_t_apply(int const* in, int* out)
{
    Out o{out};
    Srcs s(in);
    TT t = make_tt(s, Idx{});
    o.val(LIB::apply(Collect{&o}, t));
    // (const access to tuples with int& elements: separate operation t_const_ref)
    if constexpr (!t_has_ref) o.val(LIB::apply(Collect{&o}, cst(t)));
    if constexpr (!t_has_ref) { // (rvalue access to int& elements does not compile in etl, see get_one)
        o.val(LIB::apply(Collect{&o}, cmv(t)));
        o.val(LIB::apply(Collect{&o}, mv(t))); // arguments are rvalues; Collect does not move from them
    }
    dump(o, t, Idx{});
    return true;
}
static bool op_t_mft(int const* in, int* out)
{
    Out o{out};
    Srcs s(in);
    TT t = make_tt(s, Idx{});
    RecN a = LIB::make_from_tuple<RecN>(t);
    for (int i = 0; i < TN; i++) { o.val(a.v[i]); o.val(a.f[i]); }
    o.val(a.n);
    if constexpr (!t_has_ref) {
        RecN b = LIB::make_from_tuple<RecN>(cst(t));
        for (int i = 0; i < TN; i++) { o.val(b.v[i]); o.val(b.f[i]); }
    }
    if constexpr (!t_has_ref) {
        RecN c = LIB::make_from_tuple<RecN>(mv(t));
        for (int i = 0; i < TN; i++) { o.val(c.v[i]); o.val(c.f[i]); }
    }
    return true;
}
// const lvalue access to a tuple that has int& elements: get<I> / apply / make_from_tuple deliver the reference element as int&
// (constness of the tuple does not reach through a reference member)
static bool op_t_const_ref(int const* in, int* out)
{
    if constexpr (t_has_ref) {
        Out o{out};
        Srcs s(in);
        TT t = make_tt(s, Idx{});
        [&]<size_t... Is>(std::index_sequence<Is...>) { (o.val(Collect::flav<decltype(LIB::get<Is>(cst(t)))>()), ...); }(Idx{});
        o.val(LIB::apply(Collect{&o}, cst(t)));
        RecN b = LIB::make_from_tuple<RecN>(cst(t));
        for (int i = 0; i < TN; i++) { o.val(b.v[i]); o.val(b.f[i]); }
        return true;
    } else return false;
}
// tuple_cat of rvalue tuples (lvalue arguments do not compile in etl: compile-time defect, see kernel.cpp), and with a pair
template <typename C, size_t... Js> static void dump_any(Out& o, C const& c, std::index_sequence<Js...>) { (o.val(val(LIB::get<Js>(c))), ...); }
static bool op_t_cat(int const* in, int* out)
{
    // (move-only elements are left out as well: etl::tuple_cat's `etl::tuple{get<Is>(...)...}` (tuple_cat.hpp:32) relies on class template
    // argument deduction through the copy-constrained constructor; g++ 12 rejects it for move-only elements, clang 16 accepts it)
    if constexpr (!t_has_ref && !t_has_const && t_copyable) {
        Out o{out};
        Srcs s(in); Srcs r(in + TN);
        TT t = make_tt(s, Idx{}); TT u = make_tt(r, Idx{});
        auto c = LIB::tuple_cat(mv(t), mv(u));
        dump_any(o, c, std::make_index_sequence<2 * TN>{});
        dump(o, t, Idx{}); dump(o, u, Idx{});
        TT w = make_tt(s, Idx{}); // (sources of movable elements are moved-from by now: their current values are used)
        auto d = LIB::tuple_cat(mv(w), LIB::pair<int, Tr>(in[2 * TN], Tr(in[2 * TN + 1])));
        dump_any(o, d, std::make_index_sequence<TN + 2>{});
        auto e = LIB::tuple_cat(LIB::tuple<int>(in[0]));
        o.val(LIB::get<0>(e));
        return true;
    } else return false;
}
// tie / forward_as_tuple / make_tuple over TN ints
static bool op_t_tie(int const* in, int* out)
{
    Out o{out};
    int x[4] = {in[0], in[TN > 1 ? 1 : 0], in[TN > 2 ? 2 : 0], in[TN > 3 ? 3 : 0]};
    [&]<size_t... Is>(std::index_sequence<Is...>) {
        auto r = LIB::tie(x[Is]...);
        (o.val(&LIB::get<Is>(r) == &x[Is]), ...);
        ((LIB::get<Is>(r) = in[TN + Is]), ...); // write through
        (o.val(x[Is]), ...);
        auto f = LIB::forward_as_tuple(x[Is]...);
        (o.val(&LIB::get<Is>(f) == &x[Is]), ...);
        auto g = LIB::forward_as_tuple(mv(x[Is])...);
        (o.val(&LIB::get<Is>(g) == &x[Is]), ...);
        auto m = LIB::make_tuple(x[Is]...); // copies
        ((x[Is] = 0), ...);
        (o.val(LIB::get<Is>(m)), ...);
        // (make_tuple(ref(x)) is left out: it does not compile in etl - tuple_leaf<I, int&> is brace-initialised from the
        // reference_wrapper, compile-time defect, see kernel.cpp)
    }(Idx{});
    return true;
}
// make_tuple of the configured element kinds: decayed types, each argument forwarded once
static bool op_t_make(int const* in, int* out)
{
    Out o{out};
    Srcs s(in);
    [&]<size_t... Is>(std::index_sequence<Is...>) {
        auto m = LIB::make_tuple(s.template at<Is>().give()...);
        (o.val(val(LIB::get<Is>(m))), ...);
        dump_src(o, s, Idx{});
    }(Idx{});
    return true;
}
}; // TupleOps
using TO = TupleOps<TL>;
#define C20_TUPLE_OPS(X) \
    X(t_default, 1, TN) X(t_ctor_fwd, TN, 3 * TN) X(t_ctor_clv, TN, 2 * TN) X(t_copy, TN, 4 * TN) X(t_move, TN, 2 * TN) X(t_get, 2 * TN, 8 * TN) \
    X(t_eq, 2 * TN, 4) X(t_swap, 2 * TN, 3 * TN) X(t_apply, TN, 8 * TN + 4 + TN) X(t_mft, TN, 6 * TN + 1) X(t_cat, 2 * TN + 2, 5 * TN + 3) \
    X(t_tie, 2 * TN, 5 * TN) X(t_make, TN, 2 * TN) X(t_const_ref, TN, 5 * TN + 1)
} // namespace
#endif
