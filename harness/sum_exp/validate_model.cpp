// Native validation of the oracle of the sum_exp family (DESIGN.md 1.7(3)): exp_model.h against g++'s std::expected on seeded random operation
// sequences. Not part of ./vf check (std::expected needs g++ -std=c++23):
//   g++ -std=c++23 -O1 -I/verif/harness/sum_exp validate_model.cpp -o /tmp/validate_model && /tmp/validate_model [seed] [sequences]
// and_then / or_else are not validated here: libstdc++-12's <expected> does not provide them.
#include <expected>
#include <cstdio>
#include <cstdlib>
#include <random>
#include "exp_model.h"
template <class T, class E, bool TM, bool EM> static unsigned long run(unsigned seed, unsigned nseq)
{
    using X = std::expected<T, E>; using M = ExpModel<TM, EM>;
    std::mt19937 g(seed); unsigned long checks = 0;
    auto pay = [&] { return (PV)g(); };
    auto same = [&](X const& x, M const& m, char const* what) {
        checks++;
        bool ok = x.has_value() == m.has && (m.has ? rd(*x) == m.val : rd(x.error()) == m.err);
        if (!ok) { std::printf("MODEL MISMATCH after %s: std has=%d payload=%u, model has=%d val=%u err=%u\n", what, x.has_value(), x.has_value() ? rd(*x) : rd(x.error()), m.has, m.val, m.err); std::exit(1); }
    };
    for (unsigned s = 0; s < nseq; s++) {
        X a, b; T t0{}; M ma = M::value(rd(t0)), mb = ma; same(a, ma, "default construction");
        for (unsigned i = 0; i < 12; i++) {
            PV x = pay(); PV cT = rd(mk<T>(x)), cE = rd(mk<E>(x));
            switch (g() % 14) {
            case 0: a.emplace(mk<T>(x)); ma.emplace(cT); break;
            case 1: a = std::unexpected<E>(mk<E>(x)); ma = M::error(cE); break;
            case 2: b = X(std::unexpect, mk<E>(x)); mb = M::error(cE); break;
            case 3: b = X(std::in_place, mk<T>(x)); mb.emplace(cT); break;
            case 4: a = b; ma.assign_copy(mb); break;
            case 5: b = a; mb.assign_copy(ma); break;
            case 6: a = std::move(b); ma.assign_move(mb); break;
            case 7: b = std::move(a); mb.assign_move(ma); break;
            case 8: a.swap(b); ma.swap(mb); break;
            case 9: if (a.has_value()) { *a = mk<T>(x); ma.val = cT; } break;
            case 10: if (!b.has_value()) { b.error() = mk<E>(x); mb.err = cE; } break;
            case 11: { PV r = rd(std::move(a).value_or(mk<T>(x))); if (r != ma.value_or_rv(cT)) { std::puts("MODEL MISMATCH: value_or &&"); std::exit(1); } checks++; break; }
            case 12: { X c(a); M mc = M::copy_of(ma); same(c, mc, "copy construction"); PV r = rd(c.value_or(mk<T>(x))); if (r != mc.value_or(cT)) { std::puts("MODEL MISMATCH: value_or const&"); std::exit(1); } break; }
            default: { X c(std::move(b)); M mc = M::move_of(mb); same(c, mc, "move construction"); break; }
            }
            same(a, ma, "step (a)"); same(b, mb, "step (b)");
        }
    }
    return checks;
}
int main(int argc, char** argv)
{
    unsigned seed = argc > 1 ? (unsigned)std::atoi(argv[1]) : 1, n = argc > 2 ? (unsigned)std::atoi(argv[2]) : 20000;
    unsigned long c = run<int, char, false, false>(seed, n) + run<NT, NT2, true, true>(seed + 1, n) + run<int, int, false, false>(seed + 2, n) + run<NT, int, true, false>(seed + 3, n);
    std::printf("exp_model.h agrees with std::expected on %lu comparisons\n", c);
    return 0;
}
