// C07 driver (expected): every query drives an etl::expected<T, E> (through the kernels) and the tagged-union model of std::expected
// (exp_model.h; std::expected itself is invisible to clang-16 with libstdc++-12) with the same operation from the same symbolic pre-state(s)
// and compares has_value() and the held value / error afterwards.
// Pre-states: has_value flag and 32-bit payload symbolic, object bytes before construction symbolic, built through in_place / unexpect constructors.
#include "expcfg.h"
#include "exp_model.h"
#include "vf.h"
using M = ExpModel<T_MARK != 0, E_MARK != 0>;
extern "C" {
u64 k_x_sizeof();
void k_x_default(void*); void k_x_inplace(void*, PV); void k_x_inplace_v(void*, PV); void k_x_unexpect(void*, PV); void k_x_copy(void*, void const*); void k_x_move(void*, void*); void k_x_dtor(void*);
void k_x_asg_copy(void*, void const*); void k_x_asg_move(void*, void*); void k_x_asg_value(void*, PV); void k_x_asg_error(void*, PV); PV k_x_emplace(void*, PV); void k_x_swap(void*, void*);
bool k_x_has(void const*); bool k_x_bool(void const*); PV k_x_get(void*); PV k_x_get_c(void const*); PV k_x_get_r(void*); PV k_x_get_cr(void const*);
PV k_x_arrow(void*); PV k_x_arrow_c(void const*); u64 k_x_arrow_off(void*);
PV k_x_error(void*); PV k_x_error_c(void const*); PV k_x_error_r(void*); PV k_x_error_cr(void const*); void k_x_write(void*, PV); void k_x_write_err(void*, PV);
PV k_x_value_or_l(void const*, PV); PV k_x_value_or_r(void*, PV);
void k_x_and_then(void*, unsigned, PV, u64*); void k_x_or_else(void*, unsigned, PV, u64*);
}
// payload as the alternative type stores it (char keeps 8 bits, ...)
static PV canT(PV x) { return rd(mk<T>(x)); }
static PV canE(PV x) { return rd(mk<E>(x)); }
struct St { bool h; PV v; };
static St nd_state() { St s; s.h = (vf_nd_u8() & 1) != 0; s.v = vf_nd_u32(); return s; }
static void* new_x(St s)
{
    void* p = vf_sym_bytes(k_x_sizeof()); bool alt = (vf_nd_u8() & 1) != 0;
    if (s.h) { if (alt) k_x_inplace(p, s.v); else k_x_inplace_v(p, s.v); } else k_x_unexpect(p, s.v);
    return p;
}
static M model(St s) { return s.h ? M::value(canT(s.v)) : M::error(canE(s.v)); }
template <bool W = true> static void same(void* p, M const& m)
{
    vf_assert(k_x_has(p) == m.has, "has_value() == std::expected model");
    vf_assert(k_x_bool(p) == m.has, "operator bool == std::expected model");
    if (m.has && k_x_has(p)) {
        if (W) vf_witness("value state compared");
        vf_assert(k_x_get(p) == m.val, "*e == model");
        vf_assert(k_x_get_c(p) == m.val, "*const e == model");
        vf_assert(k_x_arrow(p) == m.val, "e-> == model");
    }
    if (!m.has && !k_x_has(p)) {
        vf_assert(k_x_error(p) == m.err, "e.error() == model");
        vf_assert(k_x_error_c(p) == m.err, "const e.error() == model");
    }
}
#define ONE_STATE St sa = nd_state(); void* a = new_x(sa); M ma = model(sa); if (sa.h) vf_witness("pre: value"); else vf_witness("pre: error");
#define TWO_STATES St sa = nd_state(), sb = nd_state(); void* a = new_x(sa); void* b = new_x(sb); M ma = model(sa), mb = model(sb); \
    if (sa.h && !sb.h) vf_witness("value/error"); if (!sa.h && sb.h) vf_witness("error/value"); if (sa.h && sb.h) vf_witness("value/value"); if (!sa.h && !sb.h) vf_witness("error/error");

Q q_ctor_default() { void* p = vf_sym_bytes(k_x_sizeof()); k_x_default(p); T t{}; M m = M::value(rd(t)); same(p, m); k_x_dtor(p); }
Q q_ctor_inplace()
{
    void* p = vf_sym_bytes(k_x_sizeof()); PV x = vf_nd_u32(); bool alt = (vf_nd_u8() & 1) != 0;
    if (alt) { k_x_inplace(p, x); M m = M::value(rd(T((int)x))); same(p, m); } else { k_x_inplace_v(p, x); M m = M::value(canT(x)); same(p, m); }
    vf_assert(k_x_arrow_off(p) < k_x_sizeof(), "the value lives inside the expected object"); k_x_dtor(p);
}
Q q_ctor_unexpect() { void* p = vf_sym_bytes(k_x_sizeof()); PV e = vf_nd_u32(); k_x_unexpect(p, e); M m = M::error(canE(e)); same<false>(p, m); vf_witness("error state"); k_x_dtor(p); }
Q q_ctor_copy() { ONE_STATE void* p = vf_sym_bytes(k_x_sizeof()); k_x_copy(p, a); M m = M::copy_of(ma); same<false>(p, m); same<false>(a, ma); k_x_dtor(p); k_x_dtor(a); }
Q q_ctor_move() { ONE_STATE void* p = vf_sym_bytes(k_x_sizeof()); k_x_move(p, a); M m = M::move_of(ma); same<false>(p, m); same<false>(a, ma); k_x_dtor(p); k_x_dtor(a); }
Q q_asg_copy() { TWO_STATES k_x_asg_copy(a, b); ma.assign_copy(mb); same<false>(a, ma); same<false>(b, mb); k_x_dtor(a); k_x_dtor(b); }
Q q_asg_move() { TWO_STATES k_x_asg_move(a, b); ma.assign_move(mb); same<false>(a, ma); same<false>(b, mb); k_x_dtor(a); k_x_dtor(b); }
Q q_asg_self() { ONE_STATE k_x_asg_copy(a, a); same<false>(a, ma); k_x_dtor(a); }
Q q_asg_value() { ONE_STATE PV x = vf_nd_u32(); k_x_asg_value(a, x); ma.emplace(canT(x)); same(a, ma); k_x_dtor(a); }
Q q_asg_error() { ONE_STATE PV e = vf_nd_u32(); k_x_asg_error(a, e); ma = M::error(canE(e)); same<false>(a, ma); k_x_dtor(a); }
Q q_emplace()
{
    ONE_STATE PV x = vf_nd_u32(); PV got = k_x_emplace(a, x); ma.emplace(rd(T((int)x)));
    vf_assert(got == ma.val, "emplace returns a reference to the new value"); same(a, ma); k_x_dtor(a);
}
Q q_swap() { TWO_STATES k_x_swap(a, b); ma.swap(mb); same<false>(a, ma); same<false>(b, mb); k_x_dtor(a); k_x_dtor(b); }
Q q_swap_self() { ONE_STATE k_x_swap(a, a); same<false>(a, ma); k_x_dtor(a); }
Q q_observe()
{
    ONE_STATE same<false>(a, ma);
    PV y = vf_nd_u32();
    if (sa.h) {
        vf_assert(k_x_arrow_c(a) == ma.val, "const e-> == model"); vf_assert(k_x_get_cr(a) == ma.val, "*const&& == model");
        vf_assert(k_x_arrow_off(a) < k_x_sizeof(), "the value lives inside the expected object");
        k_x_write(a, y); ma.val = canT(y); same(a, ma);
        vf_assert(k_x_get_r(a) == M::mvT(ma.val), "*&& == model"); same(a, ma);
    } else {
        vf_assert(k_x_error_cr(a) == ma.err, "const&& error() == model");
        k_x_write_err(a, y); ma.err = canE(y); same<false>(a, ma);
        vf_assert(k_x_error_r(a) == M::mvE(ma.err), "&& error() == model"); same<false>(a, ma);
    }
    k_x_dtor(a);
}
Q q_value_or()
{
    ONE_STATE PV d = vf_nd_u32();
    vf_assert(k_x_value_or_l(a, d) == ma.value_or(canT(d)), "value_or const& == model"); same<false>(a, ma);
    vf_assert(k_x_value_or_r(a, d) == ma.value_or_rv(canT(d)), "value_or && == model"); same<false>(a, ma);
    k_x_dtor(a);
}
// [expected.object.monadic]: and_then(f) on & / const& invokes f(value()), on && / const&& invokes f(std::move(value())); without a value it returns
// U(unexpect, error()) resp. U(unexpect, std::move(error())). or_else(f) mirrors this on error(), returning G(in_place, value()) resp. G(in_place, std::move(value())).
static unsigned const want_cat[4] = {CAT_LREF, CAT_CLREF, CAT_RREF, CAT_CRREF};
Q q_and_then()
{
    ONE_STATE unsigned sel = vf_nd_u8(); vf_assume(sel < 4); PV add = vf_nd_u32();
    VF_KNOWN(C07_expected_and_then_value_category, sel == 1 || sel == 2);
    u64* out = (u64*)vf_alloc(40); for (int i = 0; i < 5; i++) out[i] = 0;
    k_x_and_then(a, sel, add, out);
    if (sa.h) {
        vf_assert(out[0] == 1, "and_then invokes f exactly once when there is a value");
        vf_assert(out[2] == ma.val, "and_then passes the value");
        vf_assert(out[1] == want_cat[sel], "and_then passes value() with the value category of *this (lvalue for & / const&, rvalue for && / const&&)");
        bool odd = (ma.val & 1U) != 0;
        vf_assert(out[3] == (odd ? 0U : 1U), "and_then returns what f returned (has_value)");
        vf_assert(out[4] == (odd ? u64(canE(ma.val)) : u64(long(ma.val) + long(add))), "and_then returns what f returned (value / error)");
        if (!odd) vf_witness("and_then: value result");
    } else {
        vf_assert(out[0] == 0, "and_then does not invoke f when there is no value");
        vf_assert(out[3] == 0 && out[4] == ma.err, "and_then propagates the error");
        if (sel == 2) M::mvE(ma.err); // && overload: the error is moved into the result
    }
    same<false>(a, ma); k_x_dtor(a);
}
Q q_or_else()
{
    ONE_STATE unsigned sel = vf_nd_u8(); vf_assume(sel < 4); PV add = vf_nd_u32();
    VF_KNOWN(C07_expected_or_else_value_category, sel == 1 || sel == 2);
    u64* out = (u64*)vf_alloc(40); for (int i = 0; i < 5; i++) out[i] = 0;
    k_x_or_else(a, sel, add, out);
    if (!sa.h) {
        vf_assert(out[0] == 1, "or_else invokes f exactly once when there is an error");
        vf_assert(out[2] == ma.err, "or_else passes the error");
        vf_assert(out[1] == want_cat[sel], "or_else passes error() with the value category of *this (lvalue for & / const&, rvalue for && / const&&)");
        bool odd = (ma.err & 1U) != 0;
        vf_assert(out[3] == (odd ? 1U : 0U), "or_else returns what f returned (has_value)");
        vf_assert(out[4] == (odd ? u64(canT(ma.err)) : u64(long(ma.err) + long(add))), "or_else returns what f returned (value / error)");
        if (odd) vf_witness("or_else: value result");
    } else {
        vf_assert(out[0] == 0, "or_else does not invoke f when there is a value");
        vf_assert(out[3] == 1 && out[4] == ma.val, "or_else propagates the value");
        if (sel == 2) M::mvT(ma.val); // && overload: the value is moved into the result
    }
    same<false>(a, ma); k_x_dtor(a);
}
// ---- histories
template <unsigned MASK> static void hist(unsigned steps)
{
    void* a = vf_sym_bytes(k_x_sizeof()); void* b = vf_sym_bytes(k_x_sizeof()); k_x_default(a); k_x_default(b);
    T t0{}; M ma = M::value(rd(t0)), mb = ma; unsigned mixed = 0;
    for (unsigned i = 0; i < steps; i++) {
        uint8_t op = vf_nd_u8(); PV x = vf_nd_u32(); vf_assume(op < 12);
        if (!((MASK >> op) & 1U)) { vf_assume(false); }
        switch (op) {
        case 0: if (!(MASK & 1U)) break; k_x_emplace(a, x); ma.emplace(rd(T((int)x))); break;
        case 1: if (!(MASK & 2U)) break; k_x_asg_error(a, x); ma = M::error(canE(x)); break;
        case 2: if (!(MASK & 4U)) break; k_x_asg_error(b, x); mb = M::error(canE(x)); break;
        case 3: if (!(MASK & 8U)) break; k_x_asg_value(b, x); mb.emplace(canT(x)); break;
        case 4: if (!(MASK & 16U)) break; k_x_asg_copy(a, b); ma.assign_copy(mb); break;
        case 5: if (!(MASK & 32U)) break; k_x_asg_copy(b, a); mb.assign_copy(ma); break;
        case 6: if (!(MASK & 64U)) break; k_x_asg_move(a, b); ma.assign_move(mb); break;
        case 7: if (!(MASK & 128U)) break; k_x_asg_move(b, a); mb.assign_move(ma); break;
        case 8: if (!(MASK & 256U)) break; k_x_swap(a, b); ma.swap(mb); break;
        case 9: if (!(MASK & 512U)) break; if (ma.has && k_x_has(a)) { k_x_write(a, x); ma.val = canT(x); } break;
        case 10: if (!(MASK & 1024U)) break; if (!mb.has && !k_x_has(b)) { k_x_write_err(b, x); mb.err = canE(x); } break;
        default: if (!(MASK & 2048U)) break; { PV r = k_x_value_or_r(a, x); vf_assert(r == ma.value_or_rv(canT(x)), "history: value_or && == model"); } break;
        }
        same<false>(a, ma); same<false>(b, mb);
        if (ma.has != mb.has) mixed++;
    }
    if (steps >= 2 && mixed + 1 >= steps) vf_witness("history with one value state and one error state from the second step on");
    k_x_dtor(a); k_x_dtor(b);
}
#define OPS_ALL 0xfffU
#define OPS_CORE (1U | 4U | 16U | 64U | 256U)
#define OPS_REST (2U | 8U | 32U | 128U | 512U | 1024U | 2048U)
Q q_hist2() { hist<OPS_ALL>(2); }
Q q_hist3() { hist<OPS_ALL>(3); }
Q q_hist4() { hist<OPS_ALL>(4); }
Q q_hist5() { hist<OPS_ALL>(5); }
Q q_hist3_core() { hist<OPS_CORE>(3); }
Q q_hist3_rest() { hist<OPS_REST>(3); }
Q q_hist5_core() { hist<OPS_CORE>(5); }
Q q_hist5_rest() { hist<OPS_REST>(5); }
