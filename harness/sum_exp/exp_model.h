// Tagged-union model of std::expected<T, E> over payloads ([expected.object]); the oracle of the sum_exp family, because std::expected is
// not visible to clang-16 with libstdc++-12. validate_model.cpp checks it natively against g++'s std::expected (-std=c++23).
// TMARK / EMARK: moving from a T / E leaves the marker NT_MOVED in the source (the NT / NT2 alternatives); trivial types keep their value.
#ifndef EXP_MODEL_H
#define EXP_MODEL_H
#include "../sum_opt/sum_types.h"
template <bool TMARK, bool EMARK> struct ExpModel {
    bool has; PV val; PV err;
    static PV mvT(PV& x) { PV r = x; if (TMARK) x = NT_MOVED; return r; }
    static PV mvE(PV& x) { PV r = x; if (EMARK) x = NT_MOVED; return r; }
    static ExpModel value(PV x) { ExpModel m; m.has = true; m.val = x; m.err = 0; return m; }   // expected(in_place, x); expected() with x = payload of T()
    static ExpModel error(PV e) { ExpModel m; m.has = false; m.val = 0; m.err = e; return m; }  // expected(unexpect, e)
    static ExpModel copy_of(ExpModel const& o) { return o; }
    static ExpModel move_of(ExpModel& o) { ExpModel m = o; if (o.has) m.val = mvT(o.val); else m.err = mvE(o.err); return m; }
    void assign_copy(ExpModel const& o) { has = o.has; if (o.has) val = o.val; else err = o.err; }
    void assign_move(ExpModel& o) { bool h = o.has; if (h) { PV v = mvT(o.val); val = v; } else { PV e = mvE(o.err); err = e; } has = h; }
    void emplace(PV x) { has = true; val = x; }
    void swap(ExpModel& o) { ExpModel t = *this; *this = o; o = t; }
    PV value_or(PV d) const { return has ? val : d; }
    PV value_or_rv(PV d) { return has ? mvT(val) : d; }
    PV active() const { return has ? val : err; }
};
#endif
