// configuration of the sum_exp family (-DESEL from spec.py): value type T and error type E of expected<T, E>
#ifndef EXPCFG_H
#define EXPCFG_H
#include "../sum_opt/sum_types.h"
#ifndef ESEL
#define ESEL 1
#endif
#if ESEL == 1
typedef int T; typedef char E;
#define T_MARK 0
#define E_MARK 0
#elif ESEL == 2
typedef NT T; typedef NT2 E;
#define T_MARK 1
#define E_MARK 1
#elif ESEL == 3
typedef int T; typedef int E;
#define T_MARK 0
#define E_MARK 0
#elif ESEL == 4
typedef NT T; typedef int E;
#define T_MARK 1
#define E_MARK 0
#endif
// value category tags reported by the callables given to and_then / or_else
#define CAT_LREF 1
#define CAT_CLREF 2
#define CAT_RREF 3
#define CAT_CRREF 4
#endif
