// C07 kernels (expected): thin wrappers around etl::expected<T, E>. No logic besides marshalling: objects are addressed through void*,
// values and errors travel as their payload PV.
#include <etl/expected.hpp>
#include <etl/utility.hpp>
#include <etl/new.hpp>
#include "expcfg.h"
#include "vf.h" // after the library headers (K and Q are macros)
using X = etl::expected<T, E>;
using XR = etl::expected<long, E>; // result type of the and_then callables
using XG = etl::expected<T, long>; // result type of the or_else callables
#define XM(p) (*static_cast<X*>(p))
#define XC(p) (*static_cast<X const*>(p))

K u64 k_x_sizeof() { return sizeof(X); }
// ---- construction / destruction
K void k_x_default(void* p) { ::new (p) X(); }
K void k_x_inplace(void* p, PV x) { ::new (p) X(etl::in_place, (int)x); }
K void k_x_inplace_v(void* p, PV x) { ::new (p) X(etl::in_place, mk<T>(x)); }
K void k_x_unexpect(void* p, PV e) { ::new (p) X(etl::unexpect, mk<E>(e)); }
K void k_x_copy(void* p, void const* q) { ::new (p) X(XC(q)); }
K void k_x_move(void* p, void* q) { ::new (p) X(etl::move(XM(q))); }
K void k_x_dtor(void* p) { XM(p).~X(); }
// ---- assignment, emplace, swap
K void k_x_asg_copy(void* p, void const* q) { XM(p) = XC(q); }
K void k_x_asg_move(void* p, void* q) { XM(p) = etl::move(XM(q)); }
K void k_x_asg_value(void* p, PV x) { XM(p) = X(etl::in_place, mk<T>(x)); }   // etl::expected has no operator=(U&&): a temporary expected is assigned
K void k_x_asg_error(void* p, PV e) { XM(p) = X(etl::unexpect, mk<E>(e)); }   // etl::expected has no operator=(unexpected<G>): a temporary expected is assigned
K PV k_x_emplace(void* p, PV x) { return rd(XM(p).emplace((int)x)); }
K void k_x_swap(void* p, void* q) { using etl::swap; swap(XM(p), XM(q)); }
// ---- observers
K bool k_x_has(void const* p) { return XC(p).has_value(); }
K bool k_x_bool(void const* p) { return static_cast<bool>(XC(p)); }
K PV k_x_get(void* p) { return rd(*XM(p)); }
K PV k_x_get_c(void const* p) { return rd(*XC(p)); }
K PV k_x_get_r(void* p) { T t(*etl::move(XM(p))); return rd(t); }
K PV k_x_get_cr(void const* p) { T t(*etl::move(XC(p))); return rd(t); }
K PV k_x_arrow(void* p) { return rd(*XM(p).operator->()); }
K PV k_x_arrow_c(void const* p) { return rd(*XC(p).operator->()); }
K u64 k_x_arrow_off(void* p) { return u64(reinterpret_cast<unsigned char*>(XM(p).operator->()) - static_cast<unsigned char*>(p)); }
K PV k_x_error(void* p) { return rd(XM(p).error()); }
K PV k_x_error_c(void const* p) { return rd(XC(p).error()); }
K PV k_x_error_r(void* p) { E e(etl::move(XM(p)).error()); return rd(e); }
K PV k_x_error_cr(void const* p) { E e(etl::move(XC(p)).error()); return rd(e); }
K void k_x_write(void* p, PV x) { *XM(p) = mk<T>(x); }
K void k_x_write_err(void* p, PV e) { XM(p).error() = mk<E>(e); }
K PV k_x_value_or_l(void const* p, PV d) { return rd(XC(p).value_or(mk<T>(d))); }
K PV k_x_value_or_r(void* p, PV d) { return rd(etl::move(XM(p)).value_or(mk<T>(d))); }
// ---- and_then / or_else. The callable has one overload per value category; it counts its invocations, records the category and payload of
// its argument and returns an expected: and_then -> expected<long, E> holding payload + add, or the error mk<E>(payload) when the payload is odd;
// or_else -> expected<T, long> holding mk<T>(payload) when the payload is odd, or the error payload + add.
// sel selects the value category / constness of *this: 0 &, 1 const&, 2 &&, 3 const&&.
// out = {invocations, category seen, payload seen, result has_value, result value / error payload}
struct AndThenF {
    u64* out; PV add;
    XR go(T const& t, u64 cat) const { out[0]++; out[1] = cat; out[2] = rd(t); return (rd(t) & 1U) ? XR(etl::unexpect, mk<E>(rd(t))) : XR(etl::in_place, long(rd(t)) + long(add)); }
    XR operator()(T& t) const { return go(t, CAT_LREF); }
    XR operator()(T const& t) const { return go(t, CAT_CLREF); }
    XR operator()(T&& t) const { return go(t, CAT_RREF); }
    XR operator()(T const&& t) const { return go(t, CAT_CRREF); }
};
K void k_x_and_then(void* p, unsigned sel, PV add, u64* out)
{
    AndThenF f{out, add};
    XR r = sel == 0 ? XM(p).and_then(f) : sel == 1 ? XC(p).and_then(f) : sel == 2 ? etl::move(XM(p)).and_then(f) : etl::move(XC(p)).and_then(f);
    out[3] = r.has_value(); out[4] = r.has_value() ? u64(*r) : u64(rd(r.error()));
}
struct OrElseF {
    u64* out; PV add;
    XG go(E const& e, u64 cat) const { out[0]++; out[1] = cat; out[2] = rd(e); return (rd(e) & 1U) ? XG(etl::in_place, mk<T>(rd(e))) : XG(etl::unexpect, long(rd(e)) + long(add)); }
    XG operator()(E& e) const { return go(e, CAT_LREF); }
    XG operator()(E const& e) const { return go(e, CAT_CLREF); }
    XG operator()(E&& e) const { return go(e, CAT_RREF); }
    XG operator()(E const&& e) const { return go(e, CAT_CRREF); }
};
K void k_x_or_else(void* p, unsigned sel, PV add, u64* out)
{
    OrElseF f{out, add};
    XG r = sel == 0 ? XM(p).or_else(f) : sel == 1 ? XC(p).or_else(f) : sel == 2 ? etl::move(XM(p)).or_else(f) : etl::move(XC(p)).or_else(f);
    out[3] = r.has_value(); out[4] = r.has_value() ? u64(rd(*r)) : u64(r.error());
}
