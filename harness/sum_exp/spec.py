PROPERTIES = ['C07', 'C02']
BOUNDS = {
    'quick': 'expected<int,char> and expected<NT,NT2> (non-trivial copy/move/dtor paths): one operation from every pre-state (has_value flag, 32-bit payload and object bytes '
             'before construction symbolic), every (from,to) state pair for copy/move assignment and swap, all four value categories of *this for and_then/or_else; '
             'histories of 3 symbolic operations over 12 operation kinds (two objects, from default-constructed)',
    'thorough': 'same plus expected<int,int> (both alternatives of the same type) and expected<NT,int>; histories of 5 operations',
}
ASSUMPTIONS = [
    'C07: std::expected is invisible to clang-16 with libstdc++-12: the oracle is the tagged-union model exp_model.h (validated natively against g++ -std=c++23 std::expected by '
    'harness/sum_exp/validate_model.cpp, run by hand - not part of ./vf check); and_then/or_else (absent from libstdc++-12) are specified from [expected.object.monadic]',
    'C07: etl::expected provides no converting constructors, no operator=(U&&) / operator=(unexpected<G>), no value(), no member swap, no comparison operators, no transform / '
    'transform_error and no expected<void, E>: value and unexpected assignment are driven as assignment of a temporary expected, swap as etl::swap(a, b)',
    'C07: operator*/operator-> only with a value, error() only without one (documented preconditions)',
]
STEP = ['ctor_default', 'ctor_inplace', 'ctor_unexpect', 'ctor_copy', 'ctor_move', 'asg_copy', 'asg_move', 'asg_self', 'asg_value', 'asg_error', 'emplace',
        'swap', 'swap_self', 'observe', 'value_or', 'and_then', 'or_else']
UNWIND = 34


def queries(tier, prop='C07'):
    ub = prop == 'C02'
    out = []
    quick = tier == 'quick'

    def add(e, es, budget=120, solver='minisat'):
        out.append(dict(entry='q_' + e, cfg={'ESEL': es}, unwind=UNWIND, unwindset={'ll_memset.0': 90, 'll_memcpy.0': 90}, budget=budget, solver=solver, ub=ub, nofunc=ub))
    for es in (1, 2) if quick else (1, 2, 3, 4):
        for e in STEP:
            add(e, es)
        for h in (('hist3',) if quick else ('hist3', 'hist5')):
            add(h, es, budget=300 if quick else 2400)
    if ub and quick:   # C02 quick: the non-trivial instantiation only; C02 thorough runs the whole grid with the UB build
        out = [q for q in out if q['cfg']['ESEL'] == 2]
    return out
