PROPERTIES = ['C06', 'C02']
BOUNDS = {
    'quick': 'length 0..4 (enumerated); elements, init values, operation constants symbolic over all 32-bit values; unsigned element type; pointer iterators (all lengths), forward-only and single-pass input/output wrappers (lengths 0, 1, 3)',
    'thorough': 'length 0..7; wrappers at all lengths 0..5',
}
ASSUMPTIONS = ['num: element type unsigned (wrapping arithmetic), so no no-overflow precondition is needed; reduce/transform_reduce are checked with commutative and associative reduction operations only (the standard leaves the grouping unspecified)',
               'num: gcd, lcm, midpoint, abs, add_sat, div_sat, saturate_cast from numeric.hpp are decided by property C14, not here']
ENTRIES = ['accumulate', 'accumulate_op', 'reduce', 'reduce_init', 'reduce_op', 'inner_product', 'inner_product_op', 'transform_reduce', 'transform_reduce_op', 'transform_reduce_un',
           'adjacent_difference', 'adjacent_difference_op', 'partial_sum', 'partial_sum_op', 'adjacent_difference_inplace', 'partial_sum_inplace', 'iota']
def queries(tier, prop='C06'):
    ub = prop == 'C02'; out = []
    q = tier == 'quick'
    for it, ns in ((0, range(0, 5 if q else 8)), (1, (0, 1, 3) if q else range(0, 6)), (3, (0, 1, 3) if q else range(0, 6))):
        for e in ENTRIES:
            if it == 3 and e in ('adjacent_difference_inplace', 'partial_sum_inplace', 'iota'): continue
            for n in ns:
                out.append(dict(entry='q_' + e, cfg={'LN': n, 'IT': it}, unwind=n + 2, unwindset={'ll_memcpy.0': 4 * n + 6, 'll_memmove.0': 4 * n + 6, 'll_memmove.1': 4 * n + 6},
                                budget=120 if q else 600, solver='kissat', ub=ub, nofunc=ub))
    if ub: out = [x for x in out if x['cfg']['LN'] in (0, 3)]
    return out
