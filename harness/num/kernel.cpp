// C06 kernels (family num): thin wrappers around etl's numeric.hpp algorithms.
#include "num_common.h"
typedef U T;
#define ALG_COMMON_H 1 // alg_iters.h only needs T
#include "../alg_std/alg_iters.h"
#include <etl/numeric.hpp>
#include <etl/iterator.hpp>
#include <etl/functional.hpp>
extern "C" {
int vf_sp_violation;
T* vf_in_front[2];
T* vf_out_front;
}
using dt = etl::ptrdiff_t;
#if IT == 0
using In0 = U*; using In1 = U*; using Out = U*; using Fw = U*;
#elif IT == 1
using Fw  = fwd_it<U, etl::forward_iterator_tag, dt>;
using In0 = Fw; using In1 = Fw; using Out = Fw;
#else
using Fw  = fwd_it<U, etl::forward_iterator_tag, dt>;
using In0 = in_it<U, etl::input_iterator_tag, dt, 0>;
using In1 = in_it<U, etl::input_iterator_tag, dt, 1>;
using Out = out_it<U, etl::output_iterator_tag, dt>;
#endif
template <typename I> static inline I mk(U* p) { if constexpr (etl::is_pointer_v<I>) { return p; } else { return I{p}; } }
static inline U* raw(U* p) { return p; }
template <typename I> static inline U* raw(I i) { return i.p; }
#define I0(a) mk<In0>(a)
#define I1(a) mk<In1>(a)
#define O(a) mk<Out>(a)
#define F(a) mk<Fw>(a)
K U k_accumulate(U* a, int n, U init) { return etl::accumulate(I0(a), I0(a + n), init); }
K U k_accumulate_op(U* a, int n, U init) { return etl::accumulate(I0(a), I0(a + n), init, op_acc{}); }
K U k_reduce(U* a, int n) { return etl::reduce(I0(a), I0(a + n)); }
K U k_reduce_init(U* a, int n, U init) { return etl::reduce(I0(a), I0(a + n), init); }
K U k_reduce_op(U* a, int n, U init) { return etl::reduce(I0(a), I0(a + n), init, op_xor{}); }
K U k_inner_product(U* a, int n, U* b, U init) { return etl::inner_product(I0(a), I0(a + n), I1(b), init); }
K U k_inner_product_op(U* a, int n, U* b, U init) { return etl::inner_product(I0(a), I0(a + n), I1(b), init, op_acc{}, op_mix{}); }
K U k_transform_reduce(U* a, int n, U* b, U init) { return etl::transform_reduce(I0(a), I0(a + n), I1(b), init); }
K U k_transform_reduce_op(U* a, int n, U* b, U init) { return etl::transform_reduce(I0(a), I0(a + n), I1(b), init, op_xor{}, op_mix{}); }
K U k_transform_reduce_un(U* a, int n, U init, U c) { return etl::transform_reduce(I0(a), I0(a + n), init, op_xor{}, op_un{c}); }
K long k_adjacent_difference(U* a, int n, U* d) { return raw(etl::adjacent_difference(I0(a), I0(a + n), O(d))) - d; }
K long k_adjacent_difference_op(U* a, int n, U* d) { return raw(etl::adjacent_difference(I0(a), I0(a + n), O(d), op_mix{})) - d; }
K long k_partial_sum(U* a, int n, U* d) { return raw(etl::partial_sum(I0(a), I0(a + n), O(d))) - d; }
K long k_partial_sum_op(U* a, int n, U* d) { return raw(etl::partial_sum(I0(a), I0(a + n), O(d), op_acc{})) - d; }
K void k_iota(U* a, int n, U v) { etl::iota(F(a), F(a + n), v); }
