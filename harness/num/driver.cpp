// C06 driver (family num): accumulate, reduce, inner_product, transform_reduce, adjacent_difference, partial_sum, iota
// against libstdc++'s <numeric> compiled through the same pipeline. All elements and init values symbolic (32 bit).
#include "num_common.h"
#include <numeric>
#include <functional>
extern "C" {
extern int vf_sp_violation;
U k_accumulate(U*, int, U); U k_accumulate_op(U*, int, U); U k_reduce(U*, int); U k_reduce_init(U*, int, U); U k_reduce_op(U*, int, U);
U k_inner_product(U*, int, U*, U); U k_inner_product_op(U*, int, U*, U); U k_transform_reduce(U*, int, U*, U); U k_transform_reduce_op(U*, int, U*, U); U k_transform_reduce_un(U*, int, U, U);
long k_adjacent_difference(U*, int, U*); long k_adjacent_difference_op(U*, int, U*); long k_partial_sum(U*, int, U*); long k_partial_sum_op(U*, int, U*); void k_iota(U*, int, U);
}
static U* sym(int n) { U* p = (U*)vf_alloc((uint64_t)n * 4); for (int i = 0; i < n; i++) p[i] = vf_nd_u32(); return p; }
static U* dup(U const* s, int n) { U* p = (U*)vf_alloc((uint64_t)n * 4); for (int i = 0; i < n; i++) p[i] = s[i]; return p; }
static void same(U const* x, U const* y, int n, char const* what) { for (int i = 0; i < n; i++) vf_assert(x[i] == y[i], what); }
static void sp_ok() { vf_assert(vf_sp_violation == 0, "single-pass iterator discipline respected"); }
Q q_accumulate() { U* a = sym(LN); U i = vf_nd_u32(); vf_assert(k_accumulate(a, LN, i) == std::accumulate(a, a + LN, i), "accumulate == std"); sp_ok(); }
Q q_accumulate_op() { U* a = sym(LN); U i = vf_nd_u32(); vf_assert(k_accumulate_op(a, LN, i) == std::accumulate(a, a + LN, i, op_acc{}), "accumulate(op) == std (left fold, in order)"); sp_ok(); }
// reduce: the operation is commutative and associative, so every evaluation order allowed by the standard gives this value
Q q_reduce() { U* a = sym(LN); vf_assert(k_reduce(a, LN) == std::reduce(a, a + LN), "reduce(first,last) == std"); sp_ok(); }
Q q_reduce_init() { U* a = sym(LN); U i = vf_nd_u32(); vf_assert(k_reduce_init(a, LN, i) == std::reduce(a, a + LN, i), "reduce(init) == std"); sp_ok(); }
Q q_reduce_op() { U* a = sym(LN); U i = vf_nd_u32(); vf_assert(k_reduce_op(a, LN, i) == std::reduce(a, a + LN, i, op_xor{}), "reduce(init,op) == std"); sp_ok(); }
Q q_inner_product() { U* a = sym(LN); U* b = sym(LN); U i = vf_nd_u32(); vf_assert(k_inner_product(a, LN, b, i) == std::inner_product(a, a + LN, b, i), "inner_product == std"); sp_ok(); }
Q q_inner_product_op() { U* a = sym(LN); U* b = sym(LN); U i = vf_nd_u32(); vf_assert(k_inner_product_op(a, LN, b, i) == std::inner_product(a, a + LN, b, i, op_acc{}, op_mix{}), "inner_product(op1,op2) == std"); sp_ok(); }
Q q_transform_reduce() { U* a = sym(LN); U* b = sym(LN); U i = vf_nd_u32(); vf_assert(k_transform_reduce(a, LN, b, i) == std::transform_reduce(a, a + LN, b, i), "transform_reduce(first1,last1,first2,init) == std"); sp_ok(); }
Q q_transform_reduce_op() { U* a = sym(LN); U* b = sym(LN); U i = vf_nd_u32(); vf_assert(k_transform_reduce_op(a, LN, b, i) == std::transform_reduce(a, a + LN, b, i, op_xor{}, op_mix{}), "transform_reduce(reduce,transform) == std"); sp_ok(); }
Q q_transform_reduce_un() { U* a = sym(LN); U i = vf_nd_u32(); U c = vf_nd_u32(); vf_assert(k_transform_reduce_un(a, LN, i, c) == std::transform_reduce(a, a + LN, i, op_xor{}, op_un{c}), "transform_reduce(unary) == std"); sp_ok(); }
#define OUTALG(NAME, KNAME, ...)                                                                                       \
    Q q_##KNAME()                                                                                                      \
    {                                                                                                                  \
        U* a = sym(LN); U* d = sym(LN); U* d2 = dup(d, LN); long r = k_##KNAME(a, LN, d); long e = std::NAME(a, a + LN, d2 __VA_ARGS__) - d2; \
        vf_assert(r == e, #KNAME ": returned iterator == std"); same(d, d2, LN, #KNAME ": destination == std"); sp_ok();                       \
    }
OUTALG(adjacent_difference, adjacent_difference)
OUTALG(adjacent_difference, adjacent_difference_op, , op_mix{})
OUTALG(partial_sum, partial_sum)
OUTALG(partial_sum, partial_sum_op, , op_acc{})
#if IT != 3
// result == first is allowed for both
Q q_adjacent_difference_inplace() { U* a = sym(LN); U* a2 = dup(a, LN); k_adjacent_difference(a, LN, a); std::adjacent_difference(a2, a2 + LN, a2); same(a, a2, LN, "adjacent_difference in place == std"); }
Q q_partial_sum_inplace() { U* a = sym(LN); U* a2 = dup(a, LN); k_partial_sum_op(a, LN, a); std::partial_sum(a2, a2 + LN, a2, op_acc{}); same(a, a2, LN, "partial_sum in place == std"); }
#endif
Q q_iota() { U* a = sym(LN); U v = vf_nd_u32(); U* a2 = dup(a, LN); k_iota(a, LN, v); std::iota(a2, a2 + LN, v); same(a, a2, LN, "iota == std"); }
