// Shared by kernel.cpp / driver.cpp of family num (C06, numeric.hpp). Element type is unsigned: arithmetic wraps, so the
// comparison with libstdc++ is defined for every input (no signed-overflow precondition needed).
#ifndef NUM_COMMON_H
#define NUM_COMMON_H
#include "vf.h"
#ifndef LN
#define LN 3
#endif
#ifndef IT
#define IT 0 // 0 pointer, 1 forward-only, 3 single-pass input / write-only output
#endif
typedef unsigned U;
struct op_acc { U operator()(U acc, U x) const { return acc * 31u + x; } };      // order sensitive, not commutative
struct op_xor { U operator()(U a, U b) const { return a ^ b; } };               // commutative and associative (reduce family)
struct op_mix { U operator()(U a, U b) const { return a - 2u * b; } };          // operand-order sensitive
struct op_un { U c; U operator()(U a) const { return a * 5u + c; } };
#endif
