// C05 driver (linalg): the extents of every operand are symbolic in 0..LN (each operand views its own exact-size block of
// LN resp. LN*LN ints); mismatching extents violate the documented precondition and must end in the handler before any
// element is read or written; matching extents never reach it.
#include "c05.h"
#ifndef LN
#define LN 2
#endif
extern "C" {
void k_la_add(int const*, int, int const*, int, int*, int); void k_la_copy(int const*, int, int*, int); void k_la_swap(int*, int, int*, int);
void k_la_mvp(int const*, int, int, int const*, int, int*, int);
}
extern "C" __attribute__((noinline)) void* d_sym_block(u64 n)
{
    unsigned char* p = (unsigned char*)vf_alloc(n);
    for (u64 i = 0; i < n; i++) p[i] = vf_nd_u8();
    return p;
}
static inline int nd_ext() { int n = (int)vf_nd_u8(); vf_assume(n <= LN); return n; }
// operand viewing the first n ints of its own block of exactly n ints (so any access beyond the stated extent is out of bounds)
static inline int* vec(int n) { return (int*)d_sym_block(u64(n) * 4); }
Q q_la_add()
{
    int nx = nd_ext(), ny = nd_ext(), nz = nd_ext(); int* x = vec(nx); int* y = vec(ny); int* z = vec(nz);
    c05_watch0(z, u64(nz) * 4);
    C05_CLAUSE(0, SITE_blas1_add_1, nx != ny);
    C05_CLAUSE(1, SITE_blas1_add_2, nx != nz);
    c05_arm(); k_la_add(x, nx, y, ny, z, nz); c05_done();
    for (int i = 0; i < LN; i++) if (i < nz) vf_assert(z[i] == (int)((unsigned)x[i] + (unsigned)y[i]), "add: z = x + y");
}
Q q_la_copy()
{
    int nx = nd_ext(), ny = nd_ext(); int* x = vec(nx); int* y = vec(ny);
    c05_watch0(y, u64(ny) * 4);
    C05_CLAUSE(0, SITE_blas1_copy_1, nx != ny);
    c05_arm(); k_la_copy(x, nx, y, ny); c05_done();
    for (int i = 0; i < LN; i++) if (i < ny) vf_assert(y[i] == x[i], "copy: y = x");
}
Q q_la_swap()
{
    int nx = nd_ext(), ny = nd_ext(); int* x = vec(nx); int* y = vec(ny);
    c05_watch0(x, u64(nx) * 4); c05_watch1(y, u64(ny) * 4);
    C05_CLAUSE(0, SITE_blas1_swap_elements_1, nx != ny);
    c05_arm(); k_la_swap(x, nx, y, ny); c05_done();
}
Q q_la_mvp()
{
    int ar = LN, ac = LN, nx = nd_ext(), ny = nd_ext(); // the matrix is LN x LN (its extents are sizes: enumerated), the vector extents are symbolic
    int* a = vec(ar * ac); int* x = vec(nx); int* y = vec(ny);
    c05_watch0(y, u64(ny) * 4);
    C05_CLAUSE(0, SITE_blas2_matrix_vector_product_1, ac != nx);
    C05_CLAUSE(1, SITE_blas2_matrix_vector_product_2, ar != ny);
    c05_arm(); k_la_mvp(a, ar, ac, x, nx, y, ny); c05_done();
}
