// C05 kernels (linalg): add / copy / swap_elements on rank-1 mdspans and matrix_vector_product, all with dynamic extents
// supplied by the driver; built with contract checks and the custom handler. No logic besides marshalling.
#include "c05_kernel.h" // first: contract configuration + etl::assert_handler
#include <etl/linalg.hpp>
#include <etl/mdspan.hpp>
#include "vf.h" // after the library headers (K and Q are macros)
using V1 = etl::mdspan<int, etl::dextents<int, 1>>;
using V1C = etl::mdspan<int const, etl::dextents<int, 1>>;
using M2C = etl::mdspan<int const, etl::dextents<int, 2>>;
K void k_la_add(int const* x, int nx, int const* y, int ny, int* z, int nz) { etl::linalg::add(V1C(x, nx), V1C(y, ny), V1(z, nz)); }
K void k_la_copy(int const* x, int nx, int* y, int ny) { etl::linalg::copy(V1C(x, nx), V1(y, ny)); }
K void k_la_swap(int* x, int nx, int* y, int ny) { etl::linalg::swap_elements(V1(x, nx), V1(y, ny)); }
K void k_la_mvp(int const* a, int ar, int ac, int const* x, int nx, int* y, int ny) { etl::linalg::matrix_vector_product(M2C(a, ar, ac), V1C(x, nx), V1(y, ny)); }
