import importlib.util
import os

import sys

c05 = sys.modules.get('c05spec_shared')   # one shared instance per process (site extraction is cached in it)
if c05 is None:
    _h = os.path.join(os.path.dirname(os.path.dirname(os.path.abspath(__file__))), 'contracts_common', 'c05spec.py')
    _s = importlib.util.spec_from_file_location('c05spec_shared', _h)
    c05 = importlib.util.module_from_spec(_s)
    sys.modules['c05spec_shared'] = c05
    _s.loader.exec_module(c05)
c05.ensure_header()

PROPERTIES = ['C05']   # not part of C02: the int element arithmetic of linalg::add / matrix_vector_product overflows for arbitrary element values (caller's domain)
KERNEL_FLAGS = c05.FLAGS
DRIVER_FLAGS = c05.FLAGS
INFO = c05.parse_driver(os.path.join(os.path.dirname(os.path.abspath(__file__)), 'driver.cpp'))
REACH = {'q_la_add': {0, 1}, 'q_la_copy': {0}, 'q_la_swap': {0}, 'q_la_mvp': {0, 1}}


def queries(tier, prop='C05'):
    ub = prop == 'C02'
    grid = [(2, 0)] if (tier == 'quick' or ub) else [(2, 0), (2, 1), (3, 0), (3, 1)]
    out = []
    for (ln, safe) in grid:
        for e, reach in REACH.items():
            blk = ln * ln * 4 + 3
            out.append(dict(entry=e, cfg={'LN': ln, 'C05SAFE': safe}, unwind=(6 * ln * ln + 8) if e == 'q_la_mvp' else ln + 3,   # mvp: loops of the layout mapping are inlined into the nested element loops and accumulate
                             unwindset=c05.unwindset(blk),
                            solver=['cadical', 'minisat'], budget=300, ub=ub, nofunc=ub, optional_witness=c05.optional(True, reach, ub)))
    return out


def _note(tier):
    return c05.bounds_note(INFO, sorted({q['entry'] for q in queries(tier)}))


BOUNDS = {
    'quick': 'linalg::add / copy / swap_elements on mdspan<int, dextents<int,1>> and matrix_vector_product (mdspan<int const, dextents<int,2>> x vector), every vector extent symbolic in 0..2 (the matrix of matrix_vector_product is 2 x 2), '
             'each operand over its own exact-size block, all elements symbolic; TETL_ENABLE_CONTRACT_CHECKS. ' + _note('quick'),
    'thorough': 'extents symbolic in 0..2 and 0..3, both contract configurations. ' + _note('thorough'),
}
ASSUMPTIONS = [
    'C05/linalg: documented preconditions: add: x, y, z have equal extents; copy / swap_elements: x and y have equal extents; matrix_vector_product: a.extent(1) == x.extent(0) and a.extent(0) == y.extent(0); rank-2 add/copy/swap are not driven',
]
