// C06 kernels (family alg_std): thin wrappers around the real etl algorithms. Scalar/pointer ABI, no logic besides
// marshalling pointers into the configured iterator wrapper (IT) and passing the configured comparator (CMP).
#include "alg_iters.h"
#include <etl/algorithm.hpp>
#include <etl/functional.hpp>
#include <etl/iterator.hpp>
#include <etl/utility.hpp>

extern "C" {
int vf_sp_violation;
T* vf_in_front[2];
T* vf_out_front;
}
using dt = etl::ptrdiff_t;
#if IT == 0
using It   = T*;
using In0  = T*;
using In1  = T*;
using Out  = T*;
using Fw2  = T*;
#elif IT == 1
using It   = fwd_it<T, etl::forward_iterator_tag, dt>;
using In0  = It;
using In1  = It;
using Out  = It;
using Fw2  = It;
#elif IT == 2
using It   = bidi_it<T, etl::bidirectional_iterator_tag, dt>;
using In0  = It;
using In1  = It;
using Out  = It;
using Fw2  = It;
#else
using It   = fwd_it<T, etl::forward_iterator_tag, dt>;
using In0  = in_it<T, etl::input_iterator_tag, dt, 0>;
using In1  = in_it<T, etl::input_iterator_tag, dt, 1>;
using Out  = out_it<T, etl::output_iterator_tag, dt>;
using Fw2  = It;
#endif
template <typename I> static inline I mk(T* p) { if constexpr (etl::is_pointer_v<I>) { return p; } else { return I{p}; } }
static inline T* raw(T* p) { return p; }
template <typename I> static inline T* raw(I i) { return i.p; }
#define F(a) mk<It>(a)
#define I0(a) mk<In0>(a)
#define I1(a) mk<In1>(a)
#define O(a) mk<Out>(a)
#define F2(a) mk<Fw2>(a)

// ---- non-modifying, one range
K bool k_all_of(T* a, int n, unsigned pm, int pp) { return etl::all_of(I0(a), I0(a + n), upred{pm, pp}); }
K bool k_any_of(T* a, int n, unsigned pm, int pp) { return etl::any_of(I0(a), I0(a + n), upred{pm, pp}); }
K bool k_none_of(T* a, int n, unsigned pm, int pp) { return etl::none_of(I0(a), I0(a + n), upred{pm, pp}); }
K int k_for_each(T* a, int n, unsigned* log) { return etl::for_each(F(a), F(a + n), visit{log, 0}).calls; }
K long k_for_each_n(T* a, int cnt, unsigned* log) { visit v{log, 0}; return raw(etl::for_each_n(F(a), cnt, v)) - a; }
K long k_count(T* a, int n, T const* v) { return etl::count(I0(a), I0(a + n), *v); }
K long k_count_if(T* a, int n, unsigned pm, int pp) { return etl::count_if(I0(a), I0(a + n), upred{pm, pp}); }
K long k_find(T* a, int n, T const* v) { return raw(etl::find(I0(a), I0(a + n), *v)) - a; }
K long k_find_if(T* a, int n, unsigned pm, int pp) { return raw(etl::find_if(I0(a), I0(a + n), upred{pm, pp})) - a; }
K long k_find_if_not(T* a, int n, unsigned pm, int pp) { return raw(etl::find_if_not(I0(a), I0(a + n), upred{pm, pp})) - a; }
K long k_adjacent_find(T* a, int n) { return raw(etl::adjacent_find(F(a), F(a + n) COMMA_E)) - a; }
K bool k_is_partitioned(T* a, int n, unsigned pm, int pp) { return etl::is_partitioned(I0(a), I0(a + n), upred{pm, pp}); }
K long k_partition_point(T* a, int n, unsigned pm, int pp) { return raw(etl::partition_point(F(a), F(a + n), upred{pm, pp})) - a; }
K bool k_is_sorted(T* a, int n) { return etl::is_sorted(F(a), F(a + n) COMMA_C); }
K long k_is_sorted_until(T* a, int n) { return raw(etl::is_sorted_until(F(a), F(a + n) COMMA_C)) - a; }
K long k_min_element(T* a, int n) { return raw(etl::min_element(F(a), F(a + n) COMMA_C)) - a; }
K long k_max_element(T* a, int n) { return raw(etl::max_element(F(a), F(a + n) COMMA_C)) - a; }
K long k_minmax_element(T* a, int n, long* mx) { auto r = etl::minmax_element(F(a), F(a + n) COMMA_C); *mx = raw(r.second) - a; return raw(r.first) - a; }
K long k_lower_bound(T* a, int n, T const* v) { return raw(etl::lower_bound(F(a), F(a + n), *v COMMA_C)) - a; }
K long k_upper_bound(T* a, int n, T const* v) { return raw(etl::upper_bound(F(a), F(a + n), *v COMMA_C)) - a; }
K long k_equal_range(T* a, int n, T const* v, long* hi) { auto r = etl::equal_range(F(a), F(a + n), *v COMMA_C); *hi = raw(r.second) - a; return raw(r.first) - a; }
K bool k_binary_search(T* a, int n, T const* v) { return etl::binary_search(F(a), F(a + n), *v COMMA_C); }
#if IT == 0
// etl::search_n initialises an iterator from nullptr: only instantiable for pointers
K long k_search_n(T* a, int n, int cnt, T const* v) { return raw(etl::search_n(F(a), F(a + n), cnt, *v COMMA_E)) - a; }
#endif
// values: which argument the returned reference designates
K int k_clamp(T const* v, T const* lo, T const* hi) { T const& r = etl::clamp(*v, *lo, *hi COMMA_C); return &r == v ? 0 : &r == lo ? 1 : &r == hi ? 2 : 3; }
K int k_min(T const* x, T const* y) { T const& r = etl::min(*x, *y COMMA_C); return &r == x ? 0 : &r == y ? 1 : 2; }
K int k_max(T const* x, T const* y) { T const& r = etl::max(*x, *y COMMA_C); return &r == x ? 0 : &r == y ? 1 : 2; }
K int k_minmax(T const* x, T const* y) { auto r = etl::minmax(*x, *y COMMA_C); return (&r.first == x ? 0 : &r.first == y ? 1 : 2) * 4 + (&r.second == x ? 0 : &r.second == y ? 1 : 2); }
K void k_iter_swap(T* a, int i, int j) { etl::iter_swap(F(a + i), F(a + j)); }

// ---- non-modifying, two ranges
K bool k_equal3(T* a, int n, T* b) { return etl::equal(I0(a), I0(a + n), I1(b) COMMA_E); }
K bool k_equal4(T* a, int n, T* b, int m) { return etl::equal(I0(a), I0(a + n), I1(b), I1(b + m) COMMA_E); }
K long k_mismatch3(T* a, int n, T* b, long* second) { auto r = etl::mismatch(I0(a), I0(a + n), I1(b) COMMA_E); *second = raw(r.second) - b; return raw(r.first) - a; }
K long k_mismatch4(T* a, int n, T* b, int m, long* second) { auto r = etl::mismatch(I0(a), I0(a + n), I1(b), I1(b + m) COMMA_E); *second = raw(r.second) - b; return raw(r.first) - a; }
K bool k_lexicographical_compare(T* a, int n, T* b, int m) { return etl::lexicographical_compare(I0(a), I0(a + n), I1(b), I1(b + m) COMMA_C); }
K long k_search(T* a, int n, T* b, int m) { return raw(etl::search(F(a), F(a + n), F2(b), F2(b + m) COMMA_E)) - a; }
K long k_search_searcher(T* a, int n, T* b, int m) { return raw(etl::search(F(a), F(a + n), etl::default_searcher<Fw2>(F2(b), F2(b + m)))) - a; }
K long k_find_end(T* a, int n, T* b, int m) { return raw(etl::find_end(F(a), F(a + n), F2(b), F2(b + m) COMMA_E)) - a; }
K long k_find_first_of(T* a, int n, T* b, int m) { return raw(etl::find_first_of(I0(a), I0(a + n), F2(b), F2(b + m) COMMA_E)) - a; }
K bool k_includes(T* a, int n, T* b, int m) { return etl::includes(I0(a), I0(a + n), I1(b), I1(b + m) COMMA_C); }
#if CMP == 0
K bool k_is_permutation3(T* a, int n, T* b) { return etl::is_permutation(F(a), F(a + n), F2(b)); }
K bool k_is_permutation4(T* a, int n, T* b, int m) { return etl::is_permutation(F(a), F(a + n), F2(b), F2(b + m)); }
#endif

// ---- copying / writing
K long k_copy(T* a, int n, T* d) { return raw(etl::copy(I0(a), I0(a + n), O(d))) - d; }
K long k_copy_if(T* a, int n, T* d, unsigned pm, int pp) { return raw(etl::copy_if(I0(a), I0(a + n), O(d), upred{pm, pp})) - d; }
K long k_copy_n(T* a, int cnt, T* d) { return raw(etl::copy_n(I0(a), cnt, O(d))) - d; }
K long k_move(T* a, int n, T* d) { return raw(etl::move(I0(a), I0(a + n), O(d))) - d; }
#if IT == 0 || IT == 2
K long k_copy_backward(T* a, int n, T* dlast, T* d) { return raw(etl::copy_backward(F(a), F(a + n), F(dlast))) - d; }
K long k_move_backward(T* a, int n, T* dlast, T* d) { return raw(etl::move_backward(F(a), F(a + n), F(dlast))) - d; }
K void k_reverse(T* a, int n) { etl::reverse(F(a), F(a + n)); }
K long k_reverse_copy(T* a, int n, T* d) { return raw(etl::reverse_copy(F(a), F(a + n), O(d))) - d; }
K long k_shift_right(T* a, int n, long s) { return raw(etl::shift_right(F(a), F(a + n), s)) - a; }
#endif
K void k_fill(T* a, int n, T const* v) { etl::fill(F(a), F(a + n), *v); }
K long k_fill_n(T* a, int cnt, T const* v) { return raw(etl::fill_n(O(a), cnt, *v)) - a; }
K void k_generate(T* a, int n, unsigned seed, unsigned step) { etl::generate(F(a), F(a + n), gen{seed, step}); }
K long k_generate_n(T* a, int cnt, unsigned seed, unsigned step) { return raw(etl::generate_n(O(a), cnt, gen{seed, step})) - a; }
K long k_transform1(T* a, int n, T* d, unsigned c) { return raw(etl::transform(I0(a), I0(a + n), O(d), uop{c})) - d; }
K long k_transform2(T* a, int n, T* b, T* d) { return raw(etl::transform(I0(a), I0(a + n), I1(b), O(d), bop{})) - d; }
K void k_replace(T* a, int n, T const* ov, T const* nv) { etl::replace(F(a), F(a + n), *ov, *nv); }
K void k_replace_if(T* a, int n, unsigned pm, int pp, T const* nv) { etl::replace_if(F(a), F(a + n), upred{pm, pp}, *nv); }
K long k_remove(T* a, int n, T const* v) { return raw(etl::remove(F(a), F(a + n), *v)) - a; }
K long k_remove_if(T* a, int n, unsigned pm, int pp) { return raw(etl::remove_if(F(a), F(a + n), upred{pm, pp})) - a; }
K long k_remove_copy(T* a, int n, T* d, T const* v) { return raw(etl::remove_copy(I0(a), I0(a + n), O(d), *v)) - d; }
K long k_remove_copy_if(T* a, int n, T* d, unsigned pm, int pp) { return raw(etl::remove_copy_if(I0(a), I0(a + n), O(d), upred{pm, pp})) - d; }
K long k_rotate(T* a, int mid, int n) { return raw(etl::rotate(F(a), F(a + mid), F(a + n))) - a; }
K long k_rotate_copy(T* a, int mid, int n, T* d) { return raw(etl::rotate_copy(F(a), F(a + mid), F(a + n), O(d))) - d; }
K long k_shift_left(T* a, int n, long s) { return raw(etl::shift_left(F(a), F(a + n), s)) - a; }
K long k_swap_ranges(T* a, int n, T* b) { return raw(etl::swap_ranges(F(a), F(a + n), F2(b))) - b; }
K long k_unique(T* a, int n) { return raw(etl::unique(F(a), F(a + n) COMMA_E)) - a; }
#if IT != 3
// etl::unique_copy reads back through the destination iterator: not instantiable for a write-only output iterator
K long k_unique_copy(T* a, int n, T* d) { return raw(etl::unique_copy(I0(a), I0(a + n), O(d) COMMA_E)) - d; }
#endif
K long k_partition_copy(T* a, int n, T* dt_, T* df, unsigned pm, int pp, long* second)
{
    auto r  = etl::partition_copy(I0(a), I0(a + n), F(dt_), F(df), upred{pm, pp});
    *second = raw(r.second) - df;
    return raw(r.first) - dt_;
}
// ---- sorted-range operations
K long k_merge(T* a, int n, T* b, int m, T* d) { return raw(etl::merge(I0(a), I0(a + n), I1(b), I1(b + m), O(d) COMMA_C)) - d; }
K long k_set_difference(T* a, int n, T* b, int m, T* d) { return raw(etl::set_difference(I0(a), I0(a + n), I1(b), I1(b + m), O(d) COMMA_C)) - d; }
K long k_set_intersection(T* a, int n, T* b, int m, T* d) { return raw(etl::set_intersection(I0(a), I0(a + n), I1(b), I1(b + m), O(d) COMMA_C)) - d; }
K long k_set_symmetric_difference(T* a, int n, T* b, int m, T* d) { return raw(etl::set_symmetric_difference(I0(a), I0(a + n), I1(b), I1(b + m), O(d) COMMA_C)) - d; }
K long k_set_union(T* a, int n, T* b, int m, T* d) { return raw(etl::set_union(I0(a), I0(a + n), I1(b), I1(b + m), O(d) COMMA_C)) - d; }

// ---- iterator adaptors named in the property anchors, driven through algorithms (pointer configuration only)
#if IT == 0
struct sink { // minimal push_back container over a caller-provided buffer
    using value_type = T;
    T* d;
    int n;
    void push_back(T const& v) { d[n++] = v; }
};
K long k_rev_find(T* a, int n, T const* v) { auto r = etl::find(etl::reverse_iterator<T*>(a + n), etl::reverse_iterator<T*>(a), *v); return r.base() - a; }
K long k_rev_copy(T* a, int n, T* d) { return etl::copy(etl::make_reverse_iterator(a + n), etl::make_reverse_iterator(a), d) - d; }
K long k_rev_dist(T* a, int n, long k) { auto rb = etl::reverse_iterator<T*>(a + n); auto it = etl::next(rb, k); return (etl::distance(rb, it) << 8) | (it.base() - a); }
K int k_back_insert_copy_if(T* a, int n, T* d, unsigned pm, int pp) { sink s{d, 0}; etl::copy_if(a, a + n, etl::back_inserter(s), upred{pm, pp}); return s.n; }
K int k_back_insert_merge(T* a, int n, T* b, int m, T* d) { sink s{d, 0}; etl::merge(a, a + n, b, b + m, etl::back_insert_iterator<sink>(s) COMMA_C); return s.n; }
K void k_swap(T* x, T* y) { etl::swap(*x, *y); }
#endif
