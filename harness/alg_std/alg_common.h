// Shared between kernel.cpp (tetl side) and driver.cpp (libstdc++ / spec side) of the C06 families alg_std, alg_spec.
// Only plain types and function objects: no tetl, no std. Configuration macros come from spec.py.
#ifndef ALG_COMMON_H
#define ALG_COMMON_H
#include "vf.h"
#ifndef LN
#define LN 3 // length of the first range
#endif
#ifndef LM
#define LM 2 // length of the second range / needle
#endif
#ifndef IT
#define IT 0 // iterator wrapper: 0 pointer, 1 forward-only, 2 bidirectional, 3 single-pass input / output
#endif
#ifndef CMP
#define CMP 0 // 0 overload without comparator/predicate, 1 greater, 2 key-only (low 16 bits; equality on the key only)
#endif
#ifndef ELEM
#define ELEM 0 // 0 int, 1 struct KT {int16 key; int16 tag;} whose operators look at the key only, 2 move-observable struct Mv
#endif

#if ELEM == 0
typedef int T;
static inline unsigned bits(T const& x) { return (unsigned)x; }
static inline T mk_t(unsigned v) { return (T)v; }
#elif ELEM == 2
// move-observable element: moving FROM an object leaves the sentinel behind, so a self-move-assignment destroys the value and a
// read of a moved-from element is visible. Copies are plain. Used identically by the etl kernel and the libstdc++ oracle.
#define MV_SENTINEL (-2147483647 - 1)
struct Mv {
    int v;
    Mv() = default;
    Mv(Mv const&) = default;
    Mv& operator=(Mv const&) = default;
    Mv(Mv&& o) noexcept : v(o.v) { o.v = MV_SENTINEL; }
    Mv& operator=(Mv&& o) noexcept { v = o.v; o.v = MV_SENTINEL; return *this; }
    friend bool operator<(Mv const& a, Mv const& b) { return a.v < b.v; }
    friend bool operator==(Mv const& a, Mv const& b) { return a.v == b.v; }
};
typedef Mv T;
static inline unsigned bits(T const& x) { return (unsigned)x.v; }
static inline T mk_t(unsigned v) { T t; t.v = (int)v; return t; }
#else
struct KT {
    short key;
    short tag;
    friend bool operator<(KT const& a, KT const& b) { return a.key < b.key; }
    friend bool operator==(KT const& a, KT const& b) { return a.key == b.key; }
};
typedef KT T;
static inline unsigned bits(T const& x) { return (unsigned)(unsigned short)x.key | (unsigned)(unsigned short)x.tag << 16; }
static inline T mk_t(unsigned v) { T t; t.key = (short)(v & 0xffff); t.tag = (short)(v >> 16); return t; }
#endif
static inline short key_of(T const& x) { return (short)(bits(x) & 0xffff); }

// ordering used by a configuration (strict weak order) and the equivalence that goes with it
struct ord_lt { bool operator()(T const& a, T const& b) const { return a < b; } };
struct ord_gt { bool operator()(T const& a, T const& b) const { return b < a; } };
struct ord_key { bool operator()(T const& a, T const& b) const { return key_of(a) < key_of(b); } };
struct eq_val { bool operator()(T const& a, T const& b) const { return a == b; } };
struct eq_key { bool operator()(T const& a, T const& b) const { return key_of(a) == key_of(b); } };
#if CMP == 0
typedef ord_lt ord_t; // what the default overload must behave like
typedef eq_val eqv_t;
#define COMMA_C
#define COMMA_E
#elif CMP == 1
typedef ord_gt ord_t;
typedef eq_val eqv_t;
#define COMMA_C , ord_t{}
#define COMMA_E , eqv_t{}
#else
typedef ord_key ord_t;
typedef eq_key eqv_t;
#define COMMA_C , ord_t{}
#define COMMA_E , eqv_t{}
#endif

// unary predicate family: pred(x) = (int)(bits(x) & m) < p with symbolic m, p  (m = ~0: pivot; m = 3: residue classes ...)
struct upred {
    unsigned m;
    int p;
    bool operator()(T const& x) const { return (int)(bits(x) & m) < p; }
};
// element-wise operations (unsigned arithmetic: no overflow UB)
struct uop {
    unsigned c;
    T operator()(T const& x) const { return mk_t(bits(x) * 3u + c); }
};
struct bop {
    T operator()(T const& x, T const& y) const { return mk_t(bits(x) - 2u * bits(y)); }
};
// generator: seed, seed+step, seed+2*step, ...
struct gen {
    unsigned cur, step;
    T operator()() { unsigned v = cur; cur += step; return mk_t(v); }
};
// for_each functor: logs every visited value in order, modifies the element, counts calls
struct visit {
    unsigned* log;
    int calls;
    void operator()(T& x) { log[calls++] = bits(x); x = mk_t(bits(x) * 5u + 1u); }
};
#endif
