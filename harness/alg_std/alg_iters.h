// Iterator wrappers for the tetl side (kernel TUs only): restrict the operations an algorithm may use to those of the
// stated category. Tag types are template parameters so that this header does not depend on tetl itself.
#ifndef ALG_ITERS_H
#define ALG_ITERS_H
#include "alg_common.h"
// single-pass bookkeeping (IT == 3): defined in the kernel TU, read by the driver after the call
extern "C" {
extern int vf_sp_violation;    // set when a stale copy of an input iterator is dereferenced / an output position is written twice or out of order
extern T* vf_in_front[2];      // furthest position an input stream has been advanced to
extern T* vf_out_front;        // one past the last position written through the output iterator
}
template <typename V, typename Tag, typename Diff>
struct fwd_it {
    using iterator_category = Tag;
    using value_type        = V;
    using difference_type   = Diff;
    using pointer           = V*;
    using reference         = V&;
    V* p;
    fwd_it() : p(nullptr) { }
    explicit fwd_it(V* q) : p(q) { }
    reference operator*() const { return *p; }
    pointer operator->() const { return p; }
    fwd_it& operator++() { ++p; return *this; }
    fwd_it operator++(int) { fwd_it t = *this; ++p; return t; }
    friend bool operator==(fwd_it a, fwd_it b) { return a.p == b.p; }
    friend bool operator!=(fwd_it a, fwd_it b) { return a.p != b.p; }
};
template <typename V, typename Tag, typename Diff>
struct bidi_it {
    using iterator_category = Tag;
    using value_type        = V;
    using difference_type   = Diff;
    using pointer           = V*;
    using reference         = V&;
    V* p;
    bidi_it() : p(nullptr) { }
    explicit bidi_it(V* q) : p(q) { }
    reference operator*() const { return *p; }
    pointer operator->() const { return p; }
    bidi_it& operator++() { ++p; return *this; }
    bidi_it operator++(int) { bidi_it t = *this; ++p; return t; }
    bidi_it& operator--() { --p; return *this; }
    bidi_it operator--(int) { bidi_it t = *this; --p; return t; }
    friend bool operator==(bidi_it a, bidi_it b) { return a.p == b.p; }
    friend bool operator!=(bidi_it a, bidi_it b) { return a.p != b.p; }
};
// random-access iterator that is (base pointer, index): all iterator arithmetic and comparisons are integer operations on the
// index, elements are reached as base[index]
template <typename V, typename Tag, typename Diff>
struct ra_it {
    using iterator_category = Tag;
    using value_type        = V;
    using difference_type   = Diff;
    using pointer           = V*;
    using reference         = V&;
    V* base;
    Diff i;
    ra_it() : base(nullptr), i(0) { }
    ra_it(V* b, Diff k) : base(b), i(k) { }
    reference operator*() const { return base[i]; }
    pointer operator->() const { return base + i; }
    reference operator[](Diff n) const { return base[i + n]; }
    ra_it& operator++() { ++i; return *this; }
    ra_it operator++(int) { ra_it t = *this; ++i; return t; }
    ra_it& operator--() { --i; return *this; }
    ra_it operator--(int) { ra_it t = *this; --i; return t; }
    ra_it& operator+=(Diff n) { i += n; return *this; }
    ra_it& operator-=(Diff n) { i -= n; return *this; }
    friend ra_it operator+(ra_it a, Diff n) { return ra_it(a.base, a.i + n); }
    friend ra_it operator+(Diff n, ra_it a) { return ra_it(a.base, a.i + n); }
    friend ra_it operator-(ra_it a, Diff n) { return ra_it(a.base, a.i - n); }
    friend Diff operator-(ra_it a, ra_it b) { return a.i - b.i; }
    friend bool operator==(ra_it a, ra_it b) { return a.i == b.i; }
    friend bool operator!=(ra_it a, ra_it b) { return a.i != b.i; }
    friend bool operator<(ra_it a, ra_it b) { return a.i < b.i; }
    friend bool operator>(ra_it a, ra_it b) { return a.i > b.i; }
    friend bool operator<=(ra_it a, ra_it b) { return a.i <= b.i; }
    friend bool operator>=(ra_it a, ra_it b) { return a.i >= b.i; }
};
// single-pass input iterator over stream ID: dereferencing a copy that lags behind the stream front is recorded
template <typename V, typename Tag, typename Diff, int ID>
struct in_it {
    using iterator_category = Tag;
    using value_type        = V;
    using difference_type   = Diff;
    using pointer           = V const*;
    using reference         = V const&;
    V* p;
    in_it() : p(nullptr) { }
    explicit in_it(V* q) : p(q) { }
    reference operator*() const { if (p < vf_in_front[ID]) vf_sp_violation = 1; return *p; }
    in_it& operator++() { ++p; if (p > vf_in_front[ID]) vf_in_front[ID] = p; return *this; }
    struct postinc { // *it++ is valid on an input iterator: the value is captured before the increment
        V v;
        V const& operator*() const { return v; }
    };
    postinc operator++(int) { postinc t{**this}; ++*this; return t; }
    friend bool operator==(in_it a, in_it b) { return a.p == b.p; }
    friend bool operator!=(in_it a, in_it b) { return a.p != b.p; }
};
// output iterator: write-only proxy, every position written at most once and in increasing order
template <typename V, typename Tag, typename Diff>
struct out_it {
    using iterator_category = Tag;
    using value_type        = void;
    using difference_type   = Diff;
    using pointer           = void;
    using reference         = void;
    V* p;
    struct proxy {
        V* q;
        proxy const& operator=(V const& v) const { if (q < vf_out_front) vf_sp_violation = 1; vf_out_front = q + 1; *q = v; return *this; }
    };
    out_it() : p(nullptr) { }
    explicit out_it(V* q) : p(q) { }
    proxy operator*() const { return proxy{p}; }
    out_it& operator++() { ++p; return *this; }
    out_it operator++(int) { out_it t = *this; ++p; return t; }
};
#endif
