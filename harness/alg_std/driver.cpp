// C06 driver (family alg_std): every etl algorithm against the libstdc++ algorithm of the same name. The driver never
// includes tetl; libstdc++ goes through the same clang -> IR -> C pipeline and is executed symbolically on a copy.
// Lengths LN (first range) and LM (second range / needle) are enumerated by spec.py; element values, searched values,
// predicate parameters, counts, shifts and split points are symbolic.
#include "alg_iters.h"
#include <algorithm>
#include <functional>
#include <utility>
#include <iterator>

extern "C" {
extern int vf_sp_violation;
bool k_all_of(T*, int, unsigned, int); bool k_any_of(T*, int, unsigned, int); bool k_none_of(T*, int, unsigned, int);
int k_for_each(T*, int, unsigned*); long k_for_each_n(T*, int, unsigned*);
long k_count(T*, int, T const*); long k_count_if(T*, int, unsigned, int);
long k_find(T*, int, T const*); long k_find_if(T*, int, unsigned, int); long k_find_if_not(T*, int, unsigned, int);
long k_adjacent_find(T*, int); bool k_is_partitioned(T*, int, unsigned, int); long k_partition_point(T*, int, unsigned, int);
bool k_is_sorted(T*, int); long k_is_sorted_until(T*, int); long k_min_element(T*, int); long k_max_element(T*, int); long k_minmax_element(T*, int, long*);
long k_lower_bound(T*, int, T const*); long k_upper_bound(T*, int, T const*); long k_equal_range(T*, int, T const*, long*); bool k_binary_search(T*, int, T const*);
long k_search_n(T*, int, int, T const*);
int k_clamp(T const*, T const*, T const*); int k_min(T const*, T const*); int k_max(T const*, T const*); int k_minmax(T const*, T const*); void k_iter_swap(T*, int, int);
bool k_equal3(T*, int, T*); bool k_equal4(T*, int, T*, int); long k_mismatch3(T*, int, T*, long*); long k_mismatch4(T*, int, T*, int, long*);
bool k_lexicographical_compare(T*, int, T*, int); long k_search(T*, int, T*, int); long k_search_searcher(T*, int, T*, int); long k_find_end(T*, int, T*, int);
long k_find_first_of(T*, int, T*, int); bool k_includes(T*, int, T*, int); bool k_is_permutation3(T*, int, T*); bool k_is_permutation4(T*, int, T*, int);
long k_copy(T*, int, T*); long k_copy_if(T*, int, T*, unsigned, int); long k_copy_n(T*, int, T*); long k_move(T*, int, T*);
long k_copy_backward(T*, int, T*, T*); long k_move_backward(T*, int, T*, T*); void k_reverse(T*, int); long k_reverse_copy(T*, int, T*); long k_shift_right(T*, int, long);
void k_fill(T*, int, T const*); long k_fill_n(T*, int, T const*); void k_generate(T*, int, unsigned, unsigned); long k_generate_n(T*, int, unsigned, unsigned);
long k_transform1(T*, int, T*, unsigned); long k_transform2(T*, int, T*, T*); void k_replace(T*, int, T const*, T const*); void k_replace_if(T*, int, unsigned, int, T const*);
long k_remove(T*, int, T const*); long k_remove_if(T*, int, unsigned, int); long k_remove_copy(T*, int, T*, T const*); long k_remove_copy_if(T*, int, T*, unsigned, int);
long k_rotate(T*, int, int); long k_rotate_copy(T*, int, int, T*); long k_shift_left(T*, int, long); long k_swap_ranges(T*, int, T*);
long k_unique(T*, int); long k_unique_copy(T*, int, T*); long k_partition_copy(T*, int, T*, T*, unsigned, int, long*);
long k_merge(T*, int, T*, int, T*); long k_set_difference(T*, int, T*, int, T*); long k_set_intersection(T*, int, T*, int, T*);
long k_set_symmetric_difference(T*, int, T*, int, T*); long k_set_union(T*, int, T*, int, T*);
long k_rev_find(T*, int, T const*); long k_rev_copy(T*, int, T*); long k_rev_dist(T*, int, long); int k_back_insert_copy_if(T*, int, T*, unsigned, int); int k_back_insert_merge(T*, int, T*, int, T*); void k_swap(T*, T*);
}

// std-tagged forward-iterator view used for some oracles: selects libstdc++'s plain forward-iterator implementation
// (same specification) instead of the unrolled random-access one, which is much more expensive to encode
using SF = fwd_it<T, std::forward_iterator_tag, std::ptrdiff_t>;
static inline SF sf(T* p) { return SF(p); }
using SB = bidi_it<T, std::bidirectional_iterator_tag, std::ptrdiff_t>;
static inline SB sb(T* p) { return SB(p); }
// exact-size block of n elements, every element symbolic over the full 32 bits
static T* sym(int n) { T* p = (T*)vf_alloc((uint64_t)n * sizeof(T)); for (int i = 0; i < n; i++) p[i] = mk_t(vf_nd_u32()); return p; }
static T* dup(T const* s, int n) { T* p = (T*)vf_alloc((uint64_t)n * sizeof(T)); for (int i = 0; i < n; i++) p[i] = s[i]; return p; }
static T* val() { return sym(1); }
static void same(T const* x, T const* y, int n, char const* what) { for (int i = 0; i < n; i++) vf_assert(bits(x[i]) == bits(y[i]), what); }
static long* slot() { return (long*)vf_alloc(8); }
static void sp_ok() { vf_assert(vf_sp_violation == 0, "single-pass iterator discipline respected (no stale input iterator dereferenced, output written once in order)"); }
#define PRED unsigned pm = vf_nd_u32(); int pp = (int)vf_nd_u32(); upred P{pm, pp}
#define SORTED(a, n) vf_assume(std::is_sorted((a), (a) + (n), ord_t{}))

// ---------------------------------------------------------------- non-modifying, one range
Q q_all_of() { T* a = sym(LN); PRED; T* a0 = dup(a, LN); bool e = std::all_of(a, a + LN, P); vf_assert(k_all_of(a, LN, pm, pp) == e, "all_of == std"); same(a, a0, LN, "all_of leaves the range unchanged"); sp_ok(); }
Q q_any_of() { T* a = sym(LN); PRED; bool e = std::any_of(a, a + LN, P); vf_assert(k_any_of(a, LN, pm, pp) == e, "any_of == std"); sp_ok(); }
Q q_none_of() { T* a = sym(LN); PRED; bool e = std::none_of(a, a + LN, P); vf_assert(k_none_of(a, LN, pm, pp) == e, "none_of == std"); sp_ok(); }
Q q_for_each()
{
    T* a = sym(LN); T* a2 = dup(a, LN);
    unsigned* l1 = (unsigned*)vf_alloc(4 * LN); unsigned* l2 = (unsigned*)vf_alloc(4 * LN);
    int c = k_for_each(a, LN, l1);
    visit f = std::for_each(a2, a2 + LN, visit{l2, 0});
    vf_assert(c == f.calls, "for_each: returned functor state (call count) == std");
    for (int i = 0; i < LN; i++) vf_assert(l1[i] == l2[i], "for_each: visits the same elements in the same order as std");
    same(a, a2, LN, "for_each: elements after the call == std");
}
Q q_for_each_n()
{
    T* a = sym(LN); int cnt = (int)vf_nd_u32(); vf_assume(cnt >= 0 && cnt <= LN); // [alg.foreach] precondition n >= 0; [first, first+n) must be valid
    T* a2 = dup(a, LN);
    unsigned* l1 = (unsigned*)vf_alloc(4 * (uint64_t)cnt); unsigned* l2 = (unsigned*)vf_alloc(4 * (uint64_t)cnt);
    long r = k_for_each_n(a, cnt, l1);
    T* e = std::for_each_n(a2, cnt, visit{l2, 0});
    vf_assert(r == e - a2, "for_each_n: returned iterator == std");
    for (int i = 0; i < cnt; i++) vf_assert(l1[i] == l2[i], "for_each_n: visits the same elements in the same order as std");
    same(a, a2, LN, "for_each_n: elements after the call == std");
}
Q q_count() { T* a = sym(LN); T* v = val(); long e = std::count(a, a + LN, *v); vf_assert(k_count(a, LN, v) == e, "count == std"); sp_ok(); }
Q q_count_if() { T* a = sym(LN); PRED; long e = std::count_if(a, a + LN, P); vf_assert(k_count_if(a, LN, pm, pp) == e, "count_if == std"); sp_ok(); }
Q q_find() { T* a = sym(LN); T* v = val(); T* a0 = dup(a, LN); long e = std::find(a, a + LN, *v) - a; vf_assert(k_find(a, LN, v) == e, "find == std"); same(a, a0, LN, "find leaves the range unchanged"); sp_ok(); }
Q q_find_if() { T* a = sym(LN); PRED; long e = std::find_if(a, a + LN, P) - a; vf_assert(k_find_if(a, LN, pm, pp) == e, "find_if == std"); sp_ok(); }
Q q_find_if_not() { T* a = sym(LN); PRED; long e = std::find_if_not(a, a + LN, P) - a; vf_assert(k_find_if_not(a, LN, pm, pp) == e, "find_if_not == std"); sp_ok(); }
Q q_adjacent_find() { T* a = sym(LN); long e = std::adjacent_find(a, a + LN COMMA_E) - a; vf_assert(k_adjacent_find(a, LN) == e, "adjacent_find == std"); }
Q q_is_partitioned() { T* a = sym(LN); PRED; bool e = std::is_partitioned(a, a + LN, P); vf_assert(k_is_partitioned(a, LN, pm, pp) == e, "is_partitioned == std"); sp_ok(); }
Q q_partition_point()
{
    T* a = sym(LN); PRED; vf_assume(std::is_partitioned(a, a + LN, P)); // precondition [alg.partitions]
    long e = std::partition_point(a, a + LN, P) - a; vf_assert(k_partition_point(a, LN, pm, pp) == e, "partition_point == std");
}
Q q_is_sorted() { T* a = sym(LN); bool e = std::is_sorted(a, a + LN COMMA_C); vf_assert(k_is_sorted(a, LN) == e, "is_sorted == std"); }
Q q_is_sorted_until() { T* a = sym(LN); long e = std::is_sorted_until(a, a + LN COMMA_C) - a; vf_assert(k_is_sorted_until(a, LN) == e, "is_sorted_until == std"); }
Q q_min_element() { T* a = sym(LN); long e = std::min_element(a, a + LN COMMA_C) - a; vf_assert(k_min_element(a, LN) == e, "min_element == std (first smallest)"); }
Q q_max_element() { T* a = sym(LN); long e = std::max_element(a, a + LN COMMA_C) - a; vf_assert(k_max_element(a, LN) == e, "max_element == std (first largest)"); }
Q q_minmax_element()
{
    T* a = sym(LN); long* mx = slot(); auto e = std::minmax_element(a, a + LN COMMA_C); long mn = k_minmax_element(a, LN, mx);
    vf_assert(mn == e.first - a, "minmax_element.first == std (first smallest)"); vf_assert(*mx == e.second - a, "minmax_element.second == std (last largest)");
}
// binary searches: precondition is only that the range is partitioned with respect to the value ([alg.binary.search])
static bool part_lo(T const* a, T const& v) { ord_t c; return std::is_partitioned(a, a + LN, [&](T const& e) { return c(e, v); }); }
static bool part_hi(T const* a, T const& v) { ord_t c; return std::is_partitioned(a, a + LN, [&](T const& e) { return !c(v, e); }); }
static bool part_both(T const* a, T const& v) { ord_t c; bool ok = part_lo(a, v) && part_hi(a, v); for (int i = 0; i < LN; i++) ok = ok && (!c(a[i], v) || !c(v, a[i])); return ok; }
Q q_lower_bound() { T* a = sym(LN); T* v = val(); vf_assume(part_lo(a, *v)); long e = std::lower_bound(a, a + LN, *v COMMA_C) - a; vf_assert(k_lower_bound(a, LN, v) == e, "lower_bound == std"); }
Q q_upper_bound() { T* a = sym(LN); T* v = val(); vf_assume(part_hi(a, *v)); long e = std::upper_bound(a, a + LN, *v COMMA_C) - a; vf_assert(k_upper_bound(a, LN, v) == e, "upper_bound == std"); }
Q q_equal_range()
{
    T* a = sym(LN); T* v = val(); vf_assume(part_both(a, *v)); long* hi = slot();
    auto e = std::equal_range(a, a + LN, *v COMMA_C); long lo = k_equal_range(a, LN, v, hi);
    vf_assert(lo == e.first - a, "equal_range.first == std"); vf_assert(*hi == e.second - a, "equal_range.second == std");
}
Q q_binary_search() { T* a = sym(LN); T* v = val(); vf_assume(part_both(a, *v)); bool e = std::binary_search(a, a + LN, *v COMMA_C); vf_assert(k_binary_search(a, LN, v) == e, "binary_search == std"); }
// region of C06_search_n_stale_start: a full run exists and a matching element precedes its start
static bool sn_region(T const* a, int cnt, T const& v)
{
    if (cnt <= 0) return false;
    long r = std::search_n(a, a + LN, cnt, v, eqv_t{}) - a;
    bool earlier = false; eqv_t eq;
    for (long i = 0; i < LN; i++) earlier = earlier || (i < r && eq(a[i], v));
    return earlier && r != LN;
}
#if IT == 0
Q q_search_n()
{
    T* a = sym(LN); int cnt = (int)vf_nd_u32(); T* v = val();
    VF_KNOWN(C06_search_n_stale_start, sn_region(a, cnt, *v));
    long e = std::search_n(a, a + LN, cnt, *v COMMA_E) - a;
    if (cnt <= 0) vf_witness("search_n count<=0"); else if (e != LN) vf_witness("search_n found");
    vf_assert(k_search_n(a, LN, cnt, v) == e, "search_n == std");
}
#endif
static int which3(T const& r, T const* x, T const* y, T const* z) { return &r == x ? 0 : &r == y ? 1 : &r == z ? 2 : 3; }
Q q_clamp()
{
    T* v = val(); T* lo = val(); T* hi = val(); vf_assume(!ord_t{}(*hi, *lo)); // precondition: hi is not less than lo
    int e = which3(std::clamp(*v, *lo, *hi COMMA_C), v, lo, hi); vf_assert(k_clamp(v, lo, hi) == e, "clamp returns a reference to the same argument as std");
}
Q q_min() { T* x = val(); T* y = val(); int e = which3(std::min(*x, *y COMMA_C), x, y, nullptr); vf_assert(k_min(x, y) == e, "min returns a reference to the same argument as std"); }
Q q_max() { T* x = val(); T* y = val(); int e = which3(std::max(*x, *y COMMA_C), x, y, nullptr); vf_assert(k_max(x, y) == e, "max returns a reference to the same argument as std"); }
Q q_minmax()
{
    T* x = val(); T* y = val(); auto r = std::minmax(*x, *y COMMA_C);
    int e = which3(r.first, x, y, nullptr) * 4 + which3(r.second, x, y, nullptr); vf_assert(k_minmax(x, y) == e, "minmax returns references to the same arguments as std");
}
Q q_iter_swap()
{
    T* a = sym(LN); int i = (int)vf_nd_u32(), j = (int)vf_nd_u32(); vf_assume(i >= 0 && i < LN && j >= 0 && j < LN);
    T* a2 = dup(a, LN); k_iter_swap(a, i, j); std::iter_swap(a2 + i, a2 + j); same(a, a2, LN, "iter_swap == std");
}

// ---------------------------------------------------------------- non-modifying, two ranges
Q q_equal3() { T* a = sym(LN); T* b = sym(LN); bool e = std::equal(a, a + LN, b COMMA_E); vf_assert(k_equal3(a, LN, b) == e, "equal(first1,last1,first2) == std"); sp_ok(); }
Q q_equal4()
{
    T* a = sym(LN); T* b = sym(LM);
    bool e = std::equal(a, a + LN, b, b + LM COMMA_E); vf_assert(k_equal4(a, LN, b, LM) == e, "equal(first1,last1,first2,last2) == std"); sp_ok();
}
// second range either as long as the first (LM == LN) or one element shorter, each in its own exact-size block
Q q_equal4_symlen()
{
    T* a = sym(LN); T* full = sym(LM); bool shorter = (vf_nd_u8() & 1) != 0; T* sh = dup(full, LM - 1); T* b = shorter ? sh : full; int m2 = shorter ? LM - 1 : LM;
    VF_KNOWN(C06_equal4_nonrandom_length, IT != 0 && shorter);
    if (!shorter) vf_witness("equal4 same length");
    bool e = std::equal(a, a + LN, b, b + m2 COMMA_E); vf_assert(k_equal4(a, LN, b, m2) == e, "equal(first1,last1,first2,last2) == std (second range same length or one shorter)"); sp_ok();
}
Q q_mismatch3()
{
    T* a = sym(LN); T* b = sym(LN); long* s = slot(); auto e = std::mismatch(a, a + LN, b COMMA_E); long f = k_mismatch3(a, LN, b, s);
    vf_assert(f == e.first - a, "mismatch(3).first == std"); vf_assert(*s == e.second - b, "mismatch(3).second == std"); sp_ok();
}
Q q_mismatch4()
{
    T* a = sym(LN); T* b = sym(LM); long* s = slot(); auto e = std::mismatch(a, a + LN, b, b + LM COMMA_E); long f = k_mismatch4(a, LN, b, LM, s);
    vf_assert(f == e.first - a, "mismatch(4).first == std"); vf_assert(*s == e.second - b, "mismatch(4).second == std"); sp_ok();
}
Q q_lexicographical_compare() { T* a = sym(LN); T* b = sym(LM); bool e = std::lexicographical_compare(a, a + LN, b, b + LM COMMA_C); vf_assert(k_lexicographical_compare(a, LN, b, LM) == e, "lexicographical_compare == std"); sp_ok(); }
Q q_search() { T* a = sym(LN); T* b = sym(LM); long e = std::search(sf(a), sf(a + LN), sf(b), sf(b + LM) COMMA_E).p - a; if (LM <= LN && e != LN) vf_witness("search found"); vf_assert(k_search(a, LN, b, LM) == e, "search == std"); }
Q q_search_searcher() { T* a = sym(LN); T* b = sym(LM); long e = std::search(sf(a), sf(a + LN), std::default_searcher(sf(b), sf(b + LM))).p - a; vf_assert(k_search_searcher(a, LN, b, LM) == e, "search(default_searcher) == std"); }
// oracle: libstdc++ find_end through a bidirectional view (reverse search) for needles up to 2, through a forward view (repeated
// search) for longer ones - the cheaper encoding in each case, same specification
#if LM <= 2
#define FE_IT sb
#else
#define FE_IT sf
#endif
Q q_find_end() { T* a = sym(LN); T* b = sym(LM); long e = std::find_end(FE_IT(a), FE_IT(a + LN), FE_IT(b), FE_IT(b + LM) COMMA_E).p - a; vf_assert(k_find_end(a, LN, b, LM) == e, "find_end == std"); }
Q q_find_first_of() { T* a = sym(LN); T* b = sym(LM); long e = std::find_first_of(a, a + LN, b, b + LM COMMA_E) - a; vf_assert(k_find_first_of(a, LN, b, LM) == e, "find_first_of == std"); sp_ok(); }
Q q_includes() { T* a = sym(LN); T* b = sym(LM); SORTED(a, LN); SORTED(b, LM); bool e = std::includes(a, a + LN, b, b + LM COMMA_C); vf_assert(k_includes(a, LN, b, LM) == e, "includes == std"); sp_ok(); }
#if CMP == 0
Q q_is_permutation3() { T* a = sym(LN); T* b = sym(LN); bool e = std::is_permutation(sf(a), sf(a + LN), sf(b)); if (e) vf_witness("is_permutation true"); vf_assert(k_is_permutation3(a, LN, b) == e, "is_permutation(3) == std"); }
Q q_is_permutation4()
{
    T* a = sym(LN); T* b = sym(LM);
    bool e = std::is_permutation(sf(a), sf(a + LN), sf(b), sf(b + LM)); vf_assert(k_is_permutation4(a, LN, b, LM) == e, "is_permutation(4) == std");
}
Q q_is_permutation4_symlen()
{
    T* a = sym(LN); T* full = sym(LM); bool shorter = (vf_nd_u8() & 1) != 0; T* sh = dup(full, LM - 1); T* b = shorter ? sh : full; int m2 = shorter ? LM - 1 : LM;
    VF_KNOWN(C06_is_permutation4_nonrandom_length, IT != 0 && shorter);
    bool e = std::is_permutation(sf(a), sf(a + LN), sf(b), sf(b + m2)); vf_assert(k_is_permutation4(a, LN, b, m2) == e, "is_permutation(4) == std (second range same length or one shorter)");
}
#endif

// ---------------------------------------------------------------- copying / writing. Destinations are pre-filled with
// symbolic values and compared as a whole: the same elements are written to the same places and nothing else is touched.
Q q_copy() { T* a = sym(LN); T* d = sym(LN); T* d2 = dup(d, LN); long r = k_copy(a, LN, d); long e = std::copy(a, a + LN, d2) - d2; vf_assert(r == e, "copy: returned iterator == std"); same(d, d2, LN, "copy: destination == std"); sp_ok(); }
Q q_copy_overlap()
{ // destination starts before first inside the same array (permitted for copy: d_first not in [first, last))
    T* a = sym(LN + 1); T* a2 = dup(a, LN + 1); long r = k_copy(a + 1, LN, a); long e = std::copy(a2 + 1, a2 + 1 + LN, a2) - a2;
    vf_assert(r == e, "copy (overlapping to the left): returned iterator == std"); same(a, a2, LN + 1, "copy (overlapping to the left): array == std");
}
Q q_copy_if()
{
    T* a = sym(LN); PRED; T* d = sym(LN); T* d2 = dup(d, LN); long r = k_copy_if(a, LN, d, pm, pp); long e = std::copy_if(a, a + LN, d2, P) - d2;
    vf_assert(r == e, "copy_if: returned iterator == std"); same(d, d2, LN, "copy_if: destination == std"); sp_ok();
}
Q q_copy_n()
{
    T* a = sym(LN); int cnt = (int)vf_nd_u32(); vf_assume(cnt <= LN); // negative counts are valid: nothing is copied
    T* d = sym(LN); T* d2 = dup(d, LN);
    VF_KNOWN(C06_copy_n_return, cnt > 0);
    long r = k_copy_n(a, cnt, d); long e = std::copy_n(a, cnt, d2) - d2;
    if (cnt < 0) vf_witness("copy_n negative count");
    vf_assert(r == e, "copy_n: returned iterator == std"); same(d, d2, LN, "copy_n: destination == std"); sp_ok();
}
// move/move_backward: the oracle moves from its own copy of the source (a moved-from element is valid but unspecified and never compared)
Q q_move() { T* a = sym(LN); T* d = sym(LN); T* a2 = dup(a, LN); T* d2 = dup(d, LN); long r = k_move(a, LN, d); long e = std::move(a2, a2 + LN, d2) - d2; vf_assert(r == e, "move: returned iterator == std"); same(d, d2, LN, "move: destination == std"); sp_ok(); }
Q q_move_overlap()
{ // destination starts one element before first inside the same array; the last source element is moved-from afterwards (not compared)
    T* a = sym(LN + 1); T* a2 = dup(a, LN + 1); long r = k_move(a + 1, LN, a); long e = std::move(a2 + 1, a2 + 1 + LN, a2) - a2;
    vf_assert(r == e, "move (overlapping to the left): returned iterator == std"); same(a, a2, LN, "move (overlapping to the left): moved elements == std");
}
#if IT == 0 || IT == 2
Q q_copy_backward()
{ // destination block one element larger than the source: the copy must end exactly at d_last
    T* a = sym(LN); T* d = sym(LN + 1); T* d2 = dup(d, LN + 1); long r = k_copy_backward(a, LN, d + LN + 1, d); long e = std::copy_backward(a, a + LN, d2 + LN + 1) - d2;
    vf_assert(r == e, "copy_backward: returned iterator == std"); same(d, d2, LN + 1, "copy_backward: destination == std");
}
#endif
#if IT == 0 || IT == 2
Q q_copy_backward_overlap()
{ // shifting right by one inside the same array (permitted: d_last not in (first, last])
    T* a = sym(LN + 1); T* a2 = dup(a, LN + 1); long r = k_copy_backward(a, LN, a + LN + 1, a); long e = std::copy_backward(a2, a2 + LN, a2 + LN + 1) - a2;
    vf_assert(r == e, "copy_backward (overlapping to the right): returned iterator == std"); same(a, a2, LN + 1, "copy_backward (overlapping to the right): array == std");
}
#endif
#if IT == 0 || IT == 2
Q q_move_backward()
{
    T* a = sym(LN); T* d = sym(LN + 1); T* a2 = dup(a, LN); T* d2 = dup(d, LN + 1); long r = k_move_backward(a, LN, d + LN + 1, d); long e = std::move_backward(a2, a2 + LN, d2 + LN + 1) - d2;
    vf_assert(r == e, "move_backward: returned iterator == std"); same(d, d2, LN + 1, "move_backward: destination == std");
}
Q q_move_backward_overlap()
{ // shifting right by one inside the same array; the first source element is moved-from afterwards (not compared)
    T* a = sym(LN + 1); T* a2 = dup(a, LN + 1); long r = k_move_backward(a, LN, a + LN + 1, a); long e = std::move_backward(a2, a2 + LN, a2 + LN + 1) - a2;
    vf_assert(r == e, "move_backward (overlapping to the right): returned iterator == std"); same(a + 1, a2 + 1, LN, "move_backward (overlapping to the right): moved elements == std");
}
#endif
Q q_fill() { T* a = sym(LN); T* v = val(); T* a2 = dup(a, LN); k_fill(a, LN, v); std::fill(a2, a2 + LN, *v); same(a, a2, LN, "fill == std"); }
Q q_fill_n()
{
    T* a = sym(LN); int cnt = (int)vf_nd_u32(); vf_assume(cnt <= LN); T* v = val(); T* a2 = dup(a, LN);
    long r = k_fill_n(a, cnt, v); long e = std::fill_n(a2, cnt, *v) - a2; vf_assert(r == e, "fill_n: returned iterator == std"); same(a, a2, LN, "fill_n: range == std"); sp_ok();
}
Q q_generate() { T* a = sym(LN); unsigned s = vf_nd_u32(), st = vf_nd_u32(); T* a2 = dup(a, LN); k_generate(a, LN, s, st); std::generate(a2, a2 + LN, gen{s, st}); same(a, a2, LN, "generate == std (generator called once per element, in order)"); }
Q q_generate_n()
{
    T* a = sym(LN); int cnt = (int)vf_nd_u32(); vf_assume(cnt <= LN); unsigned s = vf_nd_u32(), st = vf_nd_u32(); T* a2 = dup(a, LN);
    long r = k_generate_n(a, cnt, s, st); long e = std::generate_n(a2, cnt, gen{s, st}) - a2; vf_assert(r == e, "generate_n: returned iterator == std"); same(a, a2, LN, "generate_n: range == std"); sp_ok();
}
Q q_transform1()
{
    T* a = sym(LN); unsigned c = vf_nd_u32(); T* d = sym(LN); T* d2 = dup(d, LN); long r = k_transform1(a, LN, d, c); long e = std::transform(a, a + LN, d2, uop{c}) - d2;
    vf_assert(r == e, "transform(unary): returned iterator == std"); same(d, d2, LN, "transform(unary): destination == std"); sp_ok();
}
Q q_transform1_inplace() { T* a = sym(LN); unsigned c = vf_nd_u32(); T* a2 = dup(a, LN); k_transform1(a, LN, a, c); std::transform(a2, a2 + LN, a2, uop{c}); same(a, a2, LN, "transform(unary, in place) == std"); }
Q q_transform2()
{
    T* a = sym(LN); T* b = sym(LN); T* d = sym(LN); T* d2 = dup(d, LN); long r = k_transform2(a, LN, b, d); long e = std::transform(a, a + LN, b, d2, bop{}) - d2;
    vf_assert(r == e, "transform(binary): returned iterator == std"); same(d, d2, LN, "transform(binary): destination == std"); sp_ok();
}
Q q_replace() { T* a = sym(LN); T* ov = val(); T* nv = val(); T* a2 = dup(a, LN); k_replace(a, LN, ov, nv); std::replace(a2, a2 + LN, *ov, *nv); same(a, a2, LN, "replace == std"); }
Q q_replace_if() { T* a = sym(LN); PRED; T* nv = val(); T* a2 = dup(a, LN); k_replace_if(a, LN, pm, pp, nv); std::replace_if(a2, a2 + LN, P, *nv); same(a, a2, LN, "replace_if == std"); }
// remove/unique: only [first, result) is specified
Q q_remove()
{
    T* a = sym(LN); T* v = val(); T* a2 = dup(a, LN); long r = k_remove(a, LN, v); long e = std::remove(a2, a2 + LN, *v) - a2;
    vf_assert(r == e, "remove: returned iterator == std"); same(a, a2, e < 0 ? 0 : (int)e, "remove: kept elements == std");
}
Q q_remove_if()
{
    T* a = sym(LN); PRED; T* a2 = dup(a, LN); long r = k_remove_if(a, LN, pm, pp); long e = std::remove_if(a2, a2 + LN, P) - a2;
    vf_assert(r == e, "remove_if: returned iterator == std"); same(a, a2, (int)e, "remove_if: kept elements == std");
}
Q q_remove_copy()
{
    T* a = sym(LN); T* v = val(); T* d = sym(LN); T* d2 = dup(d, LN);
    VF_KNOWN(C06_remove_copy_gaps, std::count(a, a + LN, *v) != 0);
    long r = k_remove_copy(a, LN, d, v); long e = std::remove_copy(a, a + LN, d2, *v) - d2;
    vf_assert(r == e, "remove_copy: returned iterator == std"); same(d, d2, LN, "remove_copy: destination == std"); sp_ok();
}
Q q_remove_copy_if()
{
    T* a = sym(LN); PRED; T* d = sym(LN); T* d2 = dup(d, LN);
    VF_KNOWN(C06_remove_copy_gaps, std::count_if(a, a + LN, P) != 0);
    long r = k_remove_copy_if(a, LN, d, pm, pp); long e = std::remove_copy_if(a, a + LN, d2, P) - d2;
    vf_assert(r == e, "remove_copy_if: returned iterator == std"); same(d, d2, LN, "remove_copy_if: destination == std"); sp_ok();
}
#if IT == 0 || IT == 2
Q q_reverse() { T* a = sym(LN); T* a2 = dup(a, LN); k_reverse(a, LN); std::reverse(a2, a2 + LN); same(a, a2, LN, "reverse == std"); }
#endif
#if IT == 0 || IT == 2
Q q_reverse_copy() { T* a = sym(LN); T* d = sym(LN); T* d2 = dup(d, LN); long r = k_reverse_copy(a, LN, d); long e = std::reverse_copy(a, a + LN, d2) - d2; vf_assert(r == e, "reverse_copy: returned iterator == std"); same(d, d2, LN, "reverse_copy: destination == std"); }
#endif
// rotate: every split point 0..LN (symbolic). Oracle std::rotate_copy (the result of rotate is unique)
Q q_rotate()
{
    T* a = sym(LN); int mid = (int)vf_nd_u32(); vf_assume(mid >= 0 && mid <= LN); T* e = (T*)vf_alloc((uint64_t)LN * sizeof(T));
    std::rotate_copy(a, a + mid, a + LN, e); long r = k_rotate(a, mid, LN);
    vf_assert(r == LN - mid, "rotate: returns first + (last - middle)"); same(a, e, LN, "rotate: elements == std");
}
Q q_rotate_copy()
{
    T* a = sym(LN); int mid = (int)vf_nd_u32(); vf_assume(mid >= 0 && mid <= LN); T* d = sym(LN); T* d2 = dup(d, LN);
    long r = k_rotate_copy(a, mid, LN, d); long e = std::rotate_copy(a, a + mid, a + LN, d2) - d2; vf_assert(r == e, "rotate_copy: returned iterator == std"); same(d, d2, LN, "rotate_copy: destination == std");
}
// shift_left/shift_right: [alg.shift] precondition n >= 0; n unbounded above. Only the shifted part is specified.
Q q_shift_left()
{
    T* a = sym(LN); long s = (long)vf_nd_u64(); vf_assume(s >= 0); T* a2 = dup(a, LN);
    long r = k_shift_left(a, LN, s); long e = std::shift_left(a2, a2 + LN, s) - a2;
    if (s > 0 && s < LN) vf_witness("shift_left proper shift");
    vf_assert(r == e, "shift_left: returned iterator == std"); same(a, a2, (int)e, "shift_left: shifted elements == std");
}
#if IT == 0 || IT == 2
Q q_shift_right()
{
    T* a = sym(LN); long s = (long)vf_nd_u64(); vf_assume(s >= 0); T* a2 = dup(a, LN);
    VF_KNOWN(C06_shift_right_zero_return, s == 0 && LN > 0);
    VF_KNOWN(C06_shift_right_loses_first, s > 0 && s < LN && bits(a[0]) != 0);
    long r = k_shift_right(a, LN, s); long e = std::shift_right(a2, a2 + LN, s) - a2;
    if (s > 0 && s < LN) vf_witness("shift_right proper shift");
    vf_assert(r == e, "shift_right: returned iterator == std");
    for (long i = e; i < LN; i++) vf_assert(bits(a[i]) == bits(a2[i]), "shift_right: shifted elements == std");
}
#endif
#if IT == 0 || IT == 2
// etl documents "n <= 0: no effects" for shift_right (the standard makes n < 0 a precondition violation): the range must be untouched
Q q_shift_right_neg() { T* a = sym(LN); long s = (long)vf_nd_u64(); vf_assume(s < 0); T* a2 = dup(a, LN); k_shift_right(a, LN, s); same(a, a2, LN, "shift_right with negative n has no effects (etl documentation)"); }
#endif
Q q_swap_ranges()
{
    T* a = sym(LN); T* b = sym(LN); T* a2 = dup(a, LN); T* b2 = dup(b, LN); long r = k_swap_ranges(a, LN, b); long e = std::swap_ranges(a2, a2 + LN, b2) - b2;
    vf_assert(r == e, "swap_ranges: returned iterator == std"); same(a, a2, LN, "swap_ranges: first range == std"); same(b, b2, LN, "swap_ranges: second range == std");
}
Q q_unique()
{
    T* a = sym(LN); T* a2 = dup(a, LN); long r = k_unique(a, LN); long e = std::unique(a2, a2 + LN COMMA_E) - a2;
    vf_assert(r == e, "unique: returned iterator == std"); same(a, a2, (int)e, "unique: kept elements == std");
}
#if IT != 3
Q q_unique_copy()
{
    T* a = sym(LN); T* d = sym(LN); T* d2 = dup(d, LN); long r = k_unique_copy(a, LN, d); long e = std::unique_copy(a, a + LN, d2 COMMA_E) - d2;
    vf_assert(r == e, "unique_copy: returned iterator == std"); same(d, d2, LN, "unique_copy: destination == std");
}
#endif
Q q_partition_copy()
{
    T* a = sym(LN); PRED; T* dt = sym(LN); T* df = sym(LN); T* dt2 = dup(dt, LN); T* df2 = dup(df, LN); long* s = slot();
    long r = k_partition_copy(a, LN, dt, df, pm, pp, s); auto e = std::partition_copy(a, a + LN, dt2, df2, P);
    vf_assert(r == e.first - dt2, "partition_copy.first == std"); vf_assert(*s == e.second - df2, "partition_copy.second == std");
    same(dt, dt2, LN, "partition_copy: true destination == std"); same(df, df2, LN, "partition_copy: false destination == std"); sp_ok();
}
// ---------------------------------------------------------------- sorted-range operations (both inputs sorted w.r.t. the comparator)
#define MERGELIKE(NAME, OUTN)                                                                                          \
    Q q_##NAME()                                                                                                       \
    {                                                                                                                  \
        T* a = sym(LN); T* b = sym(LM); SORTED(a, LN); SORTED(b, LM); T* d = sym(OUTN); T* d2 = dup(d, OUTN);               \
        long r = k_##NAME(a, LN, b, LM, d); long e = std::NAME(sf(a), sf(a + LN), sf(b), sf(b + LM), sf(d2) COMMA_C).p - d2;                      \
        vf_assert(r == e, #NAME ": returned iterator == std"); same(d, d2, OUTN, #NAME ": destination == std (values, order, stability)"); sp_ok(); \
    }
MERGELIKE(merge, LN + LM)
MERGELIKE(set_difference, LN)
MERGELIKE(set_intersection, (LN < LM ? LN : LM))
MERGELIKE(set_symmetric_difference, LN + LM)
MERGELIKE(set_union, LN + LM)

// ---------------------------------------------------------------- iterator adaptors (reverse_iterator, back_insert_iterator, next/distance) and swap
#if IT == 0
Q q_rev_find() { T* a = sym(LN); T* v = val(); long e = std::find(std::reverse_iterator<T*>(a + LN), std::reverse_iterator<T*>(a), *v).base() - a; vf_assert(k_rev_find(a, LN, v) == e, "find over reverse_iterator: base() == std"); }
Q q_rev_copy() { T* a = sym(LN); T* d = sym(LN); T* d2 = dup(d, LN); long r = k_rev_copy(a, LN, d); long e = std::copy(std::make_reverse_iterator(a + LN), std::make_reverse_iterator(a), d2) - d2; vf_assert(r == e, "copy over reverse_iterator: returned iterator == std"); same(d, d2, LN, "copy over reverse_iterator: destination == std"); }
Q q_rev_dist()
{
    T* a = sym(LN); long k = (long)vf_nd_u64(); vf_assume(k >= 0 && k <= LN);
    auto rb = std::reverse_iterator<T*>(a + LN); auto it = std::next(rb, k); long e = (std::distance(rb, it) << 8) | (it.base() - a);
    vf_assert(k_rev_dist(a, LN, k) == e, "next/distance over reverse_iterator == std");
}
Q q_back_insert_copy_if()
{
    T* a = sym(LN); PRED; long cnt = std::count_if(a, a + LN, P); T* d = (T*)vf_alloc((uint64_t)cnt * sizeof(T)); T* e = (T*)vf_alloc((uint64_t)LN * sizeof(T));
    long en = std::copy_if(a, a + LN, e, P) - e; int r = k_back_insert_copy_if(a, LN, d, pm, pp); // destination holds exactly the elements that must be appended
    vf_assert(r == en, "copy_if into back_inserter: number of push_back calls == std"); same(d, e, (int)en, "copy_if into back_inserter: appended elements == std");
}
Q q_back_insert_merge()
{
    T* a = sym(LN); T* b = sym(LM); SORTED(a, LN); SORTED(b, LM); T* d = (T*)vf_alloc((uint64_t)(LN + LM) * sizeof(T)); T* e = (T*)vf_alloc((uint64_t)(LN + LM) * sizeof(T));
    std::merge(sf(a), sf(a + LN), sf(b), sf(b + LM), sf(e) COMMA_C); int r = k_back_insert_merge(a, LN, b, LM, d);
    vf_assert(r == LN + LM, "merge into back_insert_iterator: number of push_back calls"); same(d, e, LN + LM, "merge into back_insert_iterator: appended elements == std");
}
Q q_swap() { T* x = val(); T* y = val(); unsigned bx = bits(*x), by = bits(*y); k_swap(x, y); vf_assert(bits(*x) == by && bits(*y) == bx, "swap exchanges the two values"); }
#endif
