import json, os
PROPERTIES = ['C06', 'C02']
BOUNDS = {
    'quick': 'pointer iterators with the default comparator: first range length LN = 0..4, second range / needle length LM = 0..3, every combination (merge/set_*: LN+LM <= 5, find_end: LN+LM <= 6); '
             'greater and key-only (low 16 bits, upper bits are identity tags) comparators / equivalences at LN in {1,3,4}, LM in {1,3}; forward-only iterator wrapper at LN in {0,2,4}, LM in {0,2}; '
             'bidirectional wrapper for the algorithms that need it at LN in {0,2,4}; single-pass input + write-only output wrappers at LN in {0,3}, LM in {0,2}; move-observable element type (moved-from source becomes INT_MIN; ELEM=2) for move, move_backward (also overlapping), shift_left, shift_right, rotate, remove, remove_if, unique, swap_ranges, reverse at LN in {0,2,3} with pointers. '
             'Symbolic: every element (32 bit), searched / replaced values, predicate parameters (mask, pivot), generator seed/step, counts (copy_n, fill_n, generate_n <= LN incl. negative; search_n any int), '
             'shift amounts (any non-negative 64-bit value; negative for the documented no-op of shift_right), rotate / rotate_copy split point 0..LN, iter_swap positions',
    'thorough': 'as quick with LN = 0..6, LM = 0..4 for pointers (merge/set_*: LN+LM <= 6, find_end: LN+LM <= 7, is_permutation / equal_range / search_n: LN <= 5); comparators and wrappers at LN in {0,1,3,5}, LM in {0,1,3}; '
                'key-only comparator over bidirectional wrapper LN <= 4; struct element type (key, tag) with key-only operators over pointers (LN <= 5) and forward wrapper (LN <= 4); move-observable element type for the moving algorithms at LN = 0..5 (pointers) and {0,2,4} (bidirectional wrapper)',
}
ASSUMPTIONS = [
    'alg_std: oracle = libstdc++ 12 algorithm of the same name on a copy, compiled through the same pipeline; for search, find_end, is_permutation, merge, set_* the oracle is called through a forward/bidirectional iterator view (same specification, cheaper encoding than the unrolled random-access implementation); rotate is compared with std::rotate_copy',
    'alg_std: documented preconditions assumed: sorted inputs for includes/merge/set_*; range partitioned w.r.t. the value for lower_bound/upper_bound/equal_range/binary_search; partitioned range for partition_point; clamp: !(hi < lo); for_each_n: 0 <= n <= length; copy_n/fill_n/generate_n: n <= length of the buffers; shift_left/shift_right: n >= 0 ([alg.shift]); 3-iterator overloads get a second range of the same length',
    'alg_std: remove/remove_if/unique compare [first, result) only, shift_left [first, result), shift_right [result, last) (the rest is unspecified by the standard); destinations are pre-filled with symbolic values and compared as a whole (nothing else written)',
    'alg_std: ELEM=2 is struct Mv {int v;} whose move constructor/assignment copy v and then set the source to INT_MIN (self-move-assignment destroys the value), copies plain; used identically by the etl kernel and the libstdc++ oracle; elements the standard leaves valid-but-unspecified (moved-from sources, tails of remove/unique/shift) are not compared',
    'alg_std: unary predicates are the family (bits(x) & mask) < pivot with symbolic mask and pivot; comparators: operator< (default overload), greater, key-only; arbitrary user predicates are outside the claim',
    'alg_std: reverse_iterator, back_insert_iterator (over a minimal push_back sink), next/distance and swap are exercised through find/copy/copy_if/merge with pointers only',
    'alg_std: etl::search_n, inplace_merge, stable_partition do not instantiate for non-pointer / non-random-access iterators and etl::unique_copy not for a write-only output iterator; those combinations are compile-time restrictions and are not part of the run-time claim',
]
# entry -> (ranges, minimal iterator kinds it is instantiated for, which configurable functor it takes: 'C' comparator, 'E' equivalence, '' none)
PTR, FWD, BIDI, INP = (0,), (0, 1, 2), (0, 2), (0, 1, 2, 3)
E = {
 'all_of': (1, INP, ''), 'any_of': (1, INP, ''), 'none_of': (1, INP, ''), 'for_each': (1, FWD, ''), 'for_each_n': (1, FWD, ''), 'count': (1, INP, ''), 'count_if': (1, INP, ''),
 'find': (1, INP, ''), 'find_if': (1, INP, ''), 'find_if_not': (1, INP, ''), 'adjacent_find': (1, FWD, 'E'), 'is_partitioned': (1, INP, ''), 'partition_point': (1, FWD, ''),
 'is_sorted': (1, FWD, 'C'), 'is_sorted_until': (1, FWD, 'C'), 'min_element': (1, FWD, 'C'), 'max_element': (1, FWD, 'C'), 'minmax_element': (1, FWD, 'C'),
 'lower_bound': (1, FWD, 'C'), 'upper_bound': (1, FWD, 'C'), 'equal_range': (1, FWD, 'C'), 'binary_search': (1, FWD, 'C'), 'search_n': (1, PTR, 'E'),
 'clamp': (0, PTR, 'C'), 'min': (0, PTR, 'C'), 'max': (0, PTR, 'C'), 'minmax': (0, PTR, 'C'), 'iter_swap': (1, FWD, ''),
 'equal3': (1, INP, 'E'), 'equal4': (2, INP, 'E'), 'equal4_symlen': (2, INP, 'E'), 'is_permutation4_symlen': (2, FWD, ''), 'mismatch3': (1, INP, 'E'), 'mismatch4': (2, INP, 'E'), 'lexicographical_compare': (2, INP, 'C'),
 'search': (2, FWD, 'E'), 'search_searcher': (2, FWD, ''), 'find_end': (2, FWD, 'E'), 'find_first_of': (2, INP, 'E'), 'includes': (2, INP, 'C'),
 'is_permutation3': (1, FWD, ''), 'is_permutation4': (2, FWD, ''),
 'copy': (1, INP, ''), 'copy_overlap': (1, FWD, ''), 'copy_if': (1, INP, ''), 'copy_n': (1, INP, ''), 'move': (1, INP, ''), 'move_overlap': (1, FWD, ''), 'move_backward_overlap': (1, BIDI, ''), 'copy_backward': (1, BIDI, ''), 'copy_backward_overlap': (1, BIDI, ''),
 'move_backward': (1, BIDI, ''), 'fill': (1, FWD, ''), 'fill_n': (1, INP, ''), 'generate': (1, FWD, ''), 'generate_n': (1, INP, ''), 'transform1': (1, INP, ''), 'transform1_inplace': (1, FWD, ''),
 'transform2': (1, INP, ''), 'replace': (1, FWD, ''), 'replace_if': (1, FWD, ''), 'remove': (1, FWD, ''), 'remove_if': (1, FWD, ''), 'remove_copy': (1, INP, ''), 'remove_copy_if': (1, INP, ''),
 'reverse': (1, BIDI, ''), 'reverse_copy': (1, BIDI, ''), 'rotate': (1, FWD, ''), 'rotate_copy': (1, FWD, ''), 'shift_left': (1, FWD, ''), 'shift_right': (1, BIDI, ''), 'shift_right_neg': (1, BIDI, ''), 'swap_ranges': (1, FWD, ''),
 'unique': (1, FWD, 'E'), 'unique_copy': (1, FWD, 'E'), 'partition_copy': (1, INP, ''),
 'rev_find': (1, PTR, ''), 'rev_copy': (1, PTR, ''), 'rev_dist': (1, PTR, ''), 'back_insert_copy_if': (1, PTR, ''), 'back_insert_merge': (2, PTR, 'C'), 'swap': (0, PTR, ''),
 'merge': (2, INP, 'C'), 'set_difference': (2, INP, 'C'), 'set_intersection': (2, INP, 'C'), 'set_symmetric_difference': (2, INP, 'C'), 'set_union': (2, INP, 'C'),
}
NONEMPTY = {'iter_swap'}
MOVING = {'move', 'move_overlap', 'move_backward', 'move_backward_overlap', 'shift_left', 'shift_right', 'rotate', 'remove', 'remove_if', 'unique', 'swap_ranges', 'reverse'}   # run with the move-observable element type (ELEM=2)
BIDI_ONLY = {'copy_backward', 'move_backward_overlap', 'copy_backward_overlap', 'move_backward', 'reverse', 'reverse_copy', 'shift_right', 'shift_right_neg'}
MERGE = {'back_insert_merge', 'merge', 'set_difference', 'set_intersection', 'set_symmetric_difference', 'set_union'}

def open_ids():
    here = os.path.dirname(os.path.abspath(__file__))
    ids = set()
    for p in (os.path.join(here, 'kf.json'),):
        if os.path.exists(p):
            ids |= {k['id'] for k in json.load(open(p))}
    kp = os.path.join(here, '..', '..', 'known_findings.json')
    if os.path.exists(kp):
        ids |= {k['id'] for k in json.load(open(kp)).get('open', [])}
    return ids

def one(entry, n, m, it, cmp, elem, ub, budget=240):
    un = (n + m + 2) if entry in MERGE else max(n, m) + 2
    mem = 4 * (n + m) + 6
    return dict(entry='q_' + entry, cfg={'LN': n, 'LM': m, 'IT': it, 'CMP': cmp, 'ELEM': elem}, unwind=un,
                unwindset={'ll_memcpy.0': mem, 'll_memmove.0': mem, 'll_memmove.1': mem, 'll_memset.0': mem, 'memcmp.0': mem}, budget=budget, solver='cadical', ub=ub, nofunc=ub)

def grid(out, ns, ms, it, cmp, elem, ub, only=None):
    for e, (ranges, its, fun) in E.items():
        if only and e not in only: continue
        if it not in its: continue
        if cmp == 1 and fun != 'C': continue
        if cmp == 2 and fun == '': continue
        if ranges == 0:
            out.append(one(e, 1, 0, it, cmp, elem, ub))
            continue
        for n in ns:
            if n == 0 and e in NONEMPTY: continue
            for m in (ms if ranges == 2 else [0]):
                out.append(one(e, n, m, it, cmp, elem, ub))

# per-entry size caps (cost grows fastest for the algorithms that write through a data-dependent output position)
def allowed(entry, n, m, tier):
    q = tier == 'quick'
    if entry in MERGE: return n + m <= (5 if q else 6)
    if entry == 'find_end': return n + m <= (6 if q else 7)
    if entry in ('equal4_symlen', 'is_permutation4_symlen'): return m == n and n > 0   # second length symbolic in 0..LM: only LM == LN configurations
    if entry in ('is_permutation3', 'is_permutation4'): return n <= (4 if q else 5)
    if entry == 'equal_range': return n <= (4 if q else 5)
    if entry == 'search_n': return n <= (4 if q else 5)
    return True

def queries(tier, prop='C06'):
    ub = prop == 'C02'
    kf = open_ids()
    out = []
    if tier == 'quick':
        nmax, mmax = 4, 3
        grid(out, range(0, nmax + 1), range(0, mmax + 1), 0, 0, 0, ub)               # pointers, default comparator: every length
        for cmp in (1, 2):                                                          # greater / key-only comparator and equivalence
            grid(out, (1, 3, 4), (1, 3), 0, cmp, 0, ub)
        grid(out, (0, 2, 4), (0, 2), 1, 0, 0, ub)                              # forward-only iterators
        grid(out, (0, 2, 4), (0, 2), 2, 0, 0, ub, only=BIDI_ONLY)                    # bidirectional iterators: the algorithms that need them
        grid(out, (0, 2, 3), (0,), 0, 0, 2, ub, only=MOVING)                         # move-observable elements: the algorithms that move
        grid(out, (0, 3), (0, 2), 3, 0, 0, ub)                                    # single-pass input / write-only output iterators
    else:
        nmax, mmax = 6, 4
        grid(out, range(0, nmax + 1), range(0, mmax + 1), 0, 0, 0, ub)
        for cmp in (1, 2):
            grid(out, (0, 1, 3, 5), (0, 1, 3), 0, cmp, 0, ub)
        for it in (1, 2, 3):
            grid(out, (0, 1, 3, 5), (0, 1, 3), it, 0, 0, ub)
        grid(out, (2,), (2,), 1, 0, 0, ub, only={'equal4_symlen', 'is_permutation4_symlen'})
        grid(out, (0, 1, 2, 4), (0, 2), 2, 2, 0, ub)
        grid(out, (0, 1, 3, 5), (0, 2, 3), 0, 0, 1, ub)                              # struct element (key, tag), operators look at the key only
        grid(out, (0, 1, 3, 4), (0, 2), 1, 0, 1, ub)
        grid(out, range(0, 6), (0,), 0, 0, 2, ub, only=MOVING)                        # move-observable elements
        grid(out, (0, 2, 4), (0,), 2, 0, 2, ub, only=MOVING)
        for q_ in out: q_['budget'] = 600
    out = [q for q in out if allowed(q['entry'][2:], q['cfg']['LN'], q['cfg']['LM'], tier)]
    if tier == 'quick':   # the overlapping move variants only matter for the move-observable element type; with int they repeat copy_overlap
        out = [q for q in out if q['entry'] not in ('q_move_overlap', 'q_move_backward_overlap') or q['cfg']['ELEM'] == 2]
    # configurations that lie completely inside an open known-finding region would be vacuous: skipped while the finding is open
    def inside(q):
        c = q['cfg']
        if q['entry'] == 'q_equal4' and 'C06_equal4_nonrandom_length' in kf: return c['IT'] != 0 and c['LN'] != c['LM']
        if q['entry'] == 'q_is_permutation4' and 'C06_is_permutation4_nonrandom_length' in kf: return c['IT'] != 0 and c['LN'] != c['LM']
        return False
    out = [q for q in out if not inside(q)]
    if ub:  # C02 rides on a subset: the largest and the empty length of every configuration
        keep = {}
        for q in out:
            c = q['cfg']
            k = (q['entry'], c['IT'], c['CMP'], c['ELEM'])
            keep.setdefault(k, []).append(q)
        out = []
        for k, qs in keep.items():
            qs.sort(key=lambda q: (q['cfg']['LN'] + q['cfg']['LM'], q['cfg']['LN']))
            out += [qs[0], qs[-1]] if len(qs) > 1 else qs
    seen = set(); res = []
    for q in out:
        k = (q['entry'], tuple(sorted(q['cfg'].items())))
        if k not in seen:
            seen.add(k); res.append(q)
    return res
