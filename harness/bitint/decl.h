// C14 bitint: declarations shared by kernel.cpp (definitions, the only TU that sees tetl) and driver.cpp (callers).
// Configuration (spec.py): T = integer type under test, S = 1 if T is signed, W = its width in bits.
#ifndef BITINT_DECL_H
#define BITINT_DECL_H
#include "vf.h"
#ifndef T
#define T uint8_t
#define S 0
#define W 8
#endif
// all eight second types for the mixed-type functions (cmp_*, in_range, saturate_cast, gcd, lcm)
#define FOR_U(X) X(u8, uint8_t, 0, 8) X(i8, int8_t, 1, 8) X(u16, uint16_t, 0, 16) X(i16, int16_t, 1, 16) \
                 X(u32, uint32_t, 0, 32) X(i32, int32_t, 1, 32) X(u64, uint64_t, 0, 64) X(i64, int64_t, 1, 64)
template <typename A, typename B> using ct_t = decltype(true ? A() : B()); // == std::common_type_t for integer types
typedef decltype(T() * T()) prod_t; // type in which T * T is evaluated (int for the promoted types)

extern "C" {
#if !S
int k_popcount(T); int k_popcount_fb(T); int k_countl_zero(T); int k_countl_one(T); int k_countr_zero(T); int k_countr_one(T);
int k_bit_width(T); T k_bit_ceil(T); T k_bit_floor(T); bool k_has_single_bit(T);
T k_rotl(T, int); T k_rotr(T, int);
T k_set_bit(T, T); T k_set_bit_v(T, T, bool); T k_reset_bit(T, T); T k_flip_bit(T, T); bool k_test_bit(T, T);
T k_set_bit_lo(T); T k_set_bit_hi(T); T k_set_bit_v_lo(T, bool); T k_set_bit_v_hi(T, bool); T k_reset_bit_lo(T); T k_reset_bit_hi(T);
T k_flip_bit_lo(T); T k_flip_bit_hi(T); bool k_test_bit_lo(T); bool k_test_bit_hi(T);
#if W > 8
T k_byteswap_fb(T);
#endif
#endif
T k_byteswap(T);
T k_add_sat(T, T); T k_add_sat_fb(T, T); T k_div_sat(T, T);
T k_midpoint(T, T); T* k_midpoint_ptr(T*, T*);
T k_abs(T); T k_abs_t(T);
void k_idiv(T, T, T*, T*);
T k_ipow(T, T); T k_ipow2(T); T k_ipow3(T); T k_ipow10(T);
T k_ilog2(T);
#define DECL_PAIR(N, U, SU, WU)                                                                                        \
    bool k_cmp_equal_##N(T, U); bool k_cmp_not_equal_##N(T, U); bool k_cmp_less_##N(T, U); bool k_cmp_greater_##N(T, U); \
    bool k_cmp_less_equal_##N(T, U); bool k_cmp_greater_equal_##N(T, U); bool k_in_range_##N(T); U k_sat_cast_##N(T);   \
    ct_t<T, U> k_gcd_##N(T, U); ct_t<T, U> k_lcm_##N(T, U);
FOR_U(DECL_PAIR)
// byte order (experimental/net/byte_order.hpp): fixed types, independent of T
char k_hton_c(char); uint8_t k_hton_u8(uint8_t); int8_t k_hton_i8(int8_t); uint16_t k_hton_u16(uint16_t); uint32_t k_hton_u32(uint32_t);
char k_ntoh_c(char); uint8_t k_ntoh_u8(uint8_t); int8_t k_ntoh_i8(int8_t); uint16_t k_ntoh_u16(uint16_t); uint32_t k_ntoh_u32(uint32_t);
}
#endif
