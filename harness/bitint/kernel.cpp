// C14 kernels: thin wrappers around the real tetl bit / numeric / utility / byte-order functions. No logic besides marshalling.
#include "decl.h"
#include <etl/bit.hpp>
#include <etl/cmath.hpp>
#include <etl/numeric.hpp>
#include <etl/utility.hpp>
#include <etl/type_traits.hpp>
#include <etl/experimental/net/byte_order.hpp>

#if !S
K int k_popcount(T x) { return etl::popcount(x); }
K int k_popcount_fb(T x) { return etl::detail::popcount_fallback(x); }
K int k_countl_zero(T x) { return etl::countl_zero(x); }
K int k_countl_one(T x) { return etl::countl_one(x); }
K int k_countr_zero(T x) { return etl::countr_zero(x); }
K int k_countr_one(T x) { return etl::countr_one(x); }
K int k_bit_width(T x) { return etl::bit_width(x); }
K T k_bit_ceil(T x) { return etl::bit_ceil(x); }
K T k_bit_floor(T x) { return etl::bit_floor(x); }
K bool k_has_single_bit(T x) { return etl::has_single_bit(x); }
K T k_rotl(T x, int s) { return etl::rotl(x, s); }
K T k_rotr(T x, int s) { return etl::rotr(x, s); }
K T k_set_bit(T x, T p) { return etl::set_bit(x, p); }
K T k_set_bit_v(T x, T p, bool v) { return etl::set_bit(x, p, v); }
K T k_reset_bit(T x, T p) { return etl::reset_bit(x, p); }
K T k_flip_bit(T x, T p) { return etl::flip_bit(x, p); }
K bool k_test_bit(T x, T p) { return etl::test_bit(x, p); }
K T k_set_bit_lo(T x) { return etl::set_bit<0>(x); }
K T k_set_bit_hi(T x) { return etl::set_bit<W - 1>(x); }
K T k_set_bit_v_lo(T x, bool v) { return etl::set_bit<0>(x, v); }
K T k_set_bit_v_hi(T x, bool v) { return etl::set_bit<W - 1>(x, v); }
K T k_reset_bit_lo(T x) { return etl::reset_bit<0>(x); }
K T k_reset_bit_hi(T x) { return etl::reset_bit<W - 1>(x); }
K T k_flip_bit_lo(T x) { return etl::flip_bit<0>(x); }
K T k_flip_bit_hi(T x) { return etl::flip_bit<W - 1>(x); }
K bool k_test_bit_lo(T x) { return etl::test_bit<0>(x); }
K bool k_test_bit_hi(T x) { return etl::test_bit<W - 1>(x); }
#if W > 8
K T k_byteswap_fb(T x) { return etl::detail::byteswap_fallback(x); }
#endif
#endif
K T k_byteswap(T x) { return etl::byteswap(x); }
K T k_add_sat(T x, T y) { return etl::add_sat(x, y); }
K T k_add_sat_fb(T x, T y) { return etl::detail::add_sat_fallback(x, y); }
K T k_div_sat(T x, T y) { return etl::div_sat(x, y); }
K T k_midpoint(T a, T b) { return etl::midpoint(a, b); }
K T* k_midpoint_ptr(T* a, T* b) { return etl::midpoint(a, b); }
K T k_abs(T x) { return etl::abs(x); }       // what a user of <etl/cmath.hpp> + <etl/numeric.hpp> gets
K T k_abs_t(T x) { return etl::abs<T>(x); }  // the template of _numeric/abs.hpp
K void k_idiv(T x, T y, T* q, T* r) { auto res = etl::idiv(x, y); *q = res.quot; *r = res.rem; }
K T k_ipow(T b, T e) { return etl::ipow(b, e); }
K T k_ipow2(T e) { return etl::ipow<T(2)>(e); }
K T k_ipow3(T e) { return etl::ipow<T(3)>(e); }
K T k_ipow10(T e) { return etl::ipow<T(10)>(e); }
K T k_ilog2(T x) { return etl::ilog2(x); }

#define DEF_PAIR(N, U, SU, WU)                                                                                         \
    K bool k_cmp_equal_##N(T t, U u) { return etl::cmp_equal(t, u); }                                                  \
    K bool k_cmp_not_equal_##N(T t, U u) { return etl::cmp_not_equal(t, u); }                                          \
    K bool k_cmp_less_##N(T t, U u) { return etl::cmp_less(t, u); }                                                    \
    K bool k_cmp_greater_##N(T t, U u) { return etl::cmp_greater(t, u); }                                              \
    K bool k_cmp_less_equal_##N(T t, U u) { return etl::cmp_less_equal(t, u); }                                        \
    K bool k_cmp_greater_equal_##N(T t, U u) { return etl::cmp_greater_equal(t, u); }                                  \
    K bool k_in_range_##N(T t) { return etl::in_range<U>(t); }                                                         \
    K U k_sat_cast_##N(T t) { return etl::saturate_cast<U>(t); }                                                       \
    static_assert(etl::is_same_v<decltype(etl::gcd(T(), U())), ct_t<T, U>>);                                          \
    static_assert(etl::is_same_v<decltype(etl::lcm(T(), U())), ct_t<T, U>>);                                          \
    K ct_t<T, U> k_gcd_##N(T m, U n) { return etl::gcd(m, n); }                                                        \
    K ct_t<T, U> k_lcm_##N(T m, U n) { return etl::lcm(m, n); }
FOR_U(DEF_PAIR)

namespace net = etl::experimental::net;
K char k_hton_c(char v) { return net::hton(v); }
K uint8_t k_hton_u8(uint8_t v) { return net::hton(v); }
K int8_t k_hton_i8(int8_t v) { return net::hton(v); }
K uint16_t k_hton_u16(uint16_t v) { return net::hton(v); }
K uint32_t k_hton_u32(uint32_t v) { return net::hton(v); }
K char k_ntoh_c(char v) { return net::ntoh(v); }
K uint8_t k_ntoh_u8(uint8_t v) { return net::ntoh(v); }
K int8_t k_ntoh_i8(int8_t v) { return net::ntoh(v); }
K uint16_t k_ntoh_u16(uint16_t v) { return net::ntoh(v); }
K uint32_t k_ntoh_u32(uint32_t v) { return net::ntoh(v); }
