// C14 driver: every argument symbolic over the full range of its type (restricted only by the documented domain);
// oracle 1 = the mathematical definition written here (bit predicates, __int128 arithmetic, divisor/multiple definitions),
// oracle 2 = libstdc++ <bit>/<numeric>/<utility> compiled through the same clang -> IR -> C pipeline.
// Never includes tetl. T/S/W/N (type, signedness, width, short name) and EMAX (largest symbolic exponent) come from spec.py.
#include "decl.h"
#include <bit>
#include <limits>
#include <numeric>
#include <type_traits>
#include <utility>
#ifndef N
#define N u8
#endif
#ifndef EMAX
#define EMAX 8
#endif
#ifndef PN
#define PN 7 // elements in the array used by midpoint(T*, T*)
#endif
#define CAT_(a, b) a##b
#define CAT(a, b) CAT_(a, b)
#define SELF(f) CAT(f, N) // k_gcd_ + short name of T: the (T, T) instantiation of a mixed-type kernel

typedef __int128 i128;
typedef unsigned long long u64;
typedef long long i64;
template <typename X> static X nd()
{
    if constexpr (sizeof(X) == 1) return X(vf_nd_u8());
    else if constexpr (sizeof(X) == 2) return X(vf_nd_u16());
    else if constexpr (sizeof(X) == 4) return X(vf_nd_u32());
    else return X(vf_nd_u64());
}
template <typename X> constexpr i128 lo_of = std::numeric_limits<X>::min();
template <typename X> constexpr i128 hi_of = std::numeric_limits<X>::max();
static constexpr i128 TMIN = lo_of<T>, TMAX = hi_of<T>;
static i128 clampi(i128 v, i128 lo, i128 hi) { return v < lo ? lo : (v > hi ? hi : v); }
static i128 absi(i128 v) { return v < 0 ? -v : v; }
// exact product; a 64-bit multiplier is enough when the operand widths add up to < 64 bits
template <int BITS> static i128 mulw(i128 a, i128 b) { if constexpr (BITS < 64) return (i128)((long long)a * (long long)b); else return a * b; }
typedef std::make_unsigned_t<T> UT;
static u64 bits(T x) { return u64(UT(x)); } // the W value bits of x, zero-extended

#if !S
// ---------------------------------------------------------------- <bit>: definitions as predicates over the result
static int sumbits(T x) { int c = 0; for (int i = 0; i < W; i++) c += int((bits(x) >> i) & 1); return c; }
static bool is_clz(T x, int r) { if (r < 0 || r > W) return false; if (r == W) return x == 0; return (bits(x) >> (W - 1 - r)) == 1; }
static bool is_ctz(T x, int r) { if (r < 0 || r > W) return false; if (r == W) return x == 0; return (bits(x) & ((u64(2) << r) - 1)) == (u64(1) << r); }
static bool pow2(T x) { return x != 0 && T(x & T(x - 1)) == 0; }

Q q_popcount() { T x = nd<T>(); int r = k_popcount(x); if (x == TMAX) vf_witness("all ones"); vf_assert(r == sumbits(x), "popcount == number of set bits"); vf_assert(r == std::popcount(x), "popcount == std"); }
Q q_popcount_fb() { T x = nd<T>(); int r = k_popcount_fb(x); vf_assert(r == sumbits(x), "popcount_fallback == number of set bits"); vf_assert(r == std::popcount(x), "popcount_fallback == std"); }
Q q_countl_zero() { T x = nd<T>(); int r = k_countl_zero(x); if (x == 0) vf_witness("zero"); vf_assert(is_clz(x, r), "countl_zero: top r bits clear, next bit set"); vf_assert(r == std::countl_zero(x), "countl_zero == std"); }
Q q_countl_one() { T x = nd<T>(); int r = k_countl_one(x); if (x == TMAX) vf_witness("all ones"); vf_assert(is_clz(T(~x), r), "countl_one: top r bits set, next bit clear"); vf_assert(r == std::countl_one(x), "countl_one == std"); }
Q q_countr_zero() { T x = nd<T>(); int r = k_countr_zero(x); if (x == 0) vf_witness("zero"); vf_assert(is_ctz(x, r), "countr_zero: low r bits clear, next bit set"); vf_assert(r == std::countr_zero(x), "countr_zero == std"); }
Q q_countr_one() { T x = nd<T>(); int r = k_countr_one(x); if (x == TMAX) vf_witness("all ones"); vf_assert(is_ctz(T(~x), r), "countr_one: low r bits set, next bit clear"); vf_assert(r == std::countr_one(x), "countr_one == std"); }
Q q_bit_width() { T x = nd<T>(); int r = k_bit_width(x); vf_assert(r >= 0 && r <= W && is_clz(x, W - r), "bit_width: x < 2^r and (x == 0 or x >= 2^(r-1))"); vf_assert(r == std::bit_width(x), "bit_width == std"); }
Q q_bit_ceil()
{
    T x = nd<T>();
    vf_assume(bits(x) <= (u64(1) << (W - 1))); // documented domain: the result is representable in T
    T r = k_bit_ceil(x);
    if (bits(x) == (u64(1) << (W - 1))) vf_witness("top bit");
    if (bits(x) == (u64(1) << (W - 1)) - 1) vf_witness("just below top bit");
    vf_assert(x <= 1 ? r == 1 : (pow2(r) && r >= x && T(r >> 1) < x), "bit_ceil: smallest power of two >= x");
    vf_assert(r == std::bit_ceil(x), "bit_ceil == std");
}
Q q_bit_floor()
{
    T x = nd<T>(); T r = k_bit_floor(x);
    if (x == TMAX) vf_witness("all ones");
    vf_assert(x == 0 ? r == 0 : (pow2(r) && r <= x && T(x - r) < r), "bit_floor: largest power of two <= x");
    vf_assert(r == std::bit_floor(x), "bit_floor == std");
}
Q q_has_single_bit() { T x = nd<T>(); bool r = k_has_single_bit(x); vf_assert(r == pow2(x), "has_single_bit == (x != 0 && (x & (x-1)) == 0)"); vf_assert(r == (sumbits(x) == 1), "has_single_bit == exactly one bit set"); vf_assert(r == std::has_single_bit(x), "has_single_bit == std"); }

// rotation count: the whole range of int, taken modulo the width (mathematical modulo)
static int rmod(i64 s) { return int(((s % W) + W) % W); }
static T ref_rotl(T x, int r) { return r == 0 ? x : T((bits(x) << r) | (bits(x) >> (W - r))); }
Q q_rotl()
{
    T x = nd<T>(); int s = (int)vf_nd_u32(); T r = k_rotl(x, s);
    if (s < -W) vf_witness("count < -width"); if (s > W) vf_witness("count > width"); if (s == W) vf_witness("count == width"); if (s == 0) vf_witness("count == 0");
    vf_assert(r == ref_rotl(x, rmod(s)), "rotl(x, s) == rotate left by s mod width");
    vf_assert(r == std::rotl(x, s), "rotl == std");
}
Q q_rotr()
{
    T x = nd<T>(); int s = (int)vf_nd_u32(); T r = k_rotr(x, s);
    if (s < -W) vf_witness("count < -width"); if (s > W) vf_witness("count > width"); if (s == W) vf_witness("count == width"); if (s == 0) vf_witness("count == 0");
    vf_assert(r == ref_rotl(x, rmod(-(i64)s)), "rotr(x, s) == rotate left by -s mod width");
    vf_assert(r == std::rotr(x, s), "rotr == std");
}
// single-bit operations: documented domain pos < width
Q q_set_bit() { T x = nd<T>(); T p = nd<T>(); vf_assume(p < W); if (p == W - 1) vf_witness("top bit"); vf_assert(k_set_bit(x, p) == T(bits(x) | (u64(1) << p)), "set_bit(x, pos) == x | 2^pos"); }
Q q_set_bit_v()
{
    T x = nd<T>(); T p = nd<T>(); bool v = vf_nd_u8() & 1; vf_assume(p < W);
    if (p == W - 1 && v) vf_witness("top bit set"); if (!v) vf_witness("clear");
    vf_assert(k_set_bit_v(x, p, v) == T(v ? (bits(x) | (u64(1) << p)) : (bits(x) & ~(u64(1) << p))), "set_bit(x, pos, v) sets bit pos to v, others unchanged");
}
Q q_reset_bit() { T x = nd<T>(); T p = nd<T>(); vf_assume(p < W); if (p == W - 1) vf_witness("top bit"); vf_assert(k_reset_bit(x, p) == T(bits(x) & ~(u64(1) << p)), "reset_bit(x, pos) == x & ~2^pos"); }
Q q_flip_bit() { T x = nd<T>(); T p = nd<T>(); vf_assume(p < W); if (p == W - 1) vf_witness("top bit"); vf_assert(k_flip_bit(x, p) == T(bits(x) ^ (u64(1) << p)), "flip_bit(x, pos) == x ^ 2^pos"); }
Q q_test_bit() { T x = nd<T>(); T p = nd<T>(); vf_assume(p < W); if (p == W - 1) vf_witness("top bit"); vf_assert(k_test_bit(x, p) == (((bits(x) >> p) & 1) != 0), "test_bit(x, pos) == bit pos of x"); }
Q q_bit_tpl()
{ // compile-time position overloads at both ends of the word
    T x = nd<T>(); bool v = vf_nd_u8() & 1; T const lo = 1, hi = T(u64(1) << (W - 1));
    vf_assert(k_set_bit_lo(x) == T(x | lo) && k_set_bit_hi(x) == T(x | hi), "set_bit<Pos>(x)");
    vf_assert(k_set_bit_v_lo(x, v) == T(v ? (x | lo) : (x & ~lo)) && k_set_bit_v_hi(x, v) == T(v ? (x | hi) : (x & ~hi)), "set_bit<Pos>(x, v)");
    vf_assert(k_reset_bit_lo(x) == T(x & ~lo) && k_reset_bit_hi(x) == T(x & ~hi), "reset_bit<Pos>(x)");
    vf_assert(k_flip_bit_lo(x) == T(x ^ lo) && k_flip_bit_hi(x) == T(x ^ hi), "flip_bit<Pos>(x)");
    vf_assert(k_test_bit_lo(x) == ((x & lo) != 0) && k_test_bit_hi(x) == ((x & hi) != 0), "test_bit<Pos>(x)");
}
#endif

// ---------------------------------------------------------------- byteswap: byte i of the result is byte size-1-i of the argument
static T ref_bswap(T x)
{
    u64 v = bits(x), e = 0;
    for (unsigned i = 0; i < sizeof(T); i++) e |= ((v >> (8 * i)) & 0xff) << (8 * (sizeof(T) - 1 - i));
    return T(UT(e));
}
Q q_byteswap() { T x = nd<T>(); T r = k_byteswap(x); vf_assert(r == ref_bswap(x), "byteswap reverses the bytes"); vf_assert(k_byteswap(r) == x, "byteswap is an involution"); }
#if !S && W > 8
Q q_byteswap_fb() { T x = nd<T>(); vf_assert(k_byteswap_fb(x) == ref_bswap(x), "byteswap_fallback reverses the bytes"); }
#endif

// ---------------------------------------------------------------- saturating arithmetic: exact result in __int128, clamped
Q q_add_sat()
{
    T x = nd<T>(); T y = nd<T>(); i128 e = clampi((i128)x + (i128)y, TMIN, TMAX);
    if ((i128)x + y > TMAX) vf_witness("saturates at max");
    if (S) { if ((i128)x + y < TMIN) vf_witness("saturates at min"); if (x == TMIN && y == T(-1)) vf_witness("min + -1"); }
    vf_assert((i128)k_add_sat(x, y) == e, "add_sat == clamp(x + y)");
}
Q q_add_sat_fb() { T x = nd<T>(); T y = nd<T>(); vf_assert((i128)k_add_sat_fb(x, y) == clampi((i128)x + (i128)y, TMIN, TMAX), "add_sat_fallback == clamp(x + y)"); }
// quotient / remainder by definition: x == q * y + r (exactly), |r| < |y|, r == 0 or sign(r) == sign(x)  (truncation towards zero).
// Comparing against a second division circuit is not decidable by SAT beyond 8 bits (measured); the multiplicative definition is (kissat).
// It is stated on magnitudes, |x| == |q| * |y| + rho with 0 <= rho < |y|, plus the sign rule (q == 0 or sign(q) == sign(x) xor sign(y)).
static UT umag(T v) { return v < 0 ? UT(UT(0) - UT(v)) : UT(v); }
static bool is_quot(T x, T y, T q)
{
    bool neg = (x < 0) != (y < 0);
    UT uq = neg ? UT(UT(0) - UT(q)) : UT(q), ax = umag(x), ay = umag(y), p; // magnitudes; uq: magnitude of q under the sign rule
    bool o = __builtin_mul_overflow(uq, ay, &p);                            // p == uq * ay exactly unless o
    return (q == 0 || (q < 0) == neg) && !o && p <= ax && UT(ax - p) < ay;
}
// SG < 0: all operand signs in one query; SG = 0..3: the case (x < 0) == bit 0, (y < 0) == bit 1 (the four cases partition the domain;
// used for the 32/64-bit signed types, where the unsplit query is not decided in time)
template <int SG> static void div_sat_case()
{
    T x = nd<T>(); T y = nd<T>(); vf_assume(y != 0); // documented precondition
    if constexpr (SG >= 0) vf_assume((x < 0) == bool(SG & 1) && (y < 0) == bool(SG & 2));
    T r = k_div_sat(x, y);
    if (S && x == TMIN && y == T(-1)) { if constexpr (SG < 0 || SG == 3) vf_witness("min / -1"); vf_assert(r == TMAX, "div_sat(min, -1) == max"); }
    else {
        if constexpr (S && (SG < 0 || SG == 3)) { if (x < 0 && y < 0) vf_witness("both negative"); }
        vf_assert(is_quot(x, y, r), "div_sat: |x| == |q| * |y| + rho, 0 <= rho < |y|, sign(q) == sign(x) xor sign(y)");
        if (W == 8) vf_assert(r == T(x / y), "div_sat == x / y");
    }
}
template <int SG> static void idiv_case()
{
    T x = nd<T>(); T y = nd<T>(); T q0 = nd<T>(); T r0 = nd<T>();
    vf_assume(y != 0); vf_assume(!(S && x == TMIN && y == T(-1))); // quotient representable
    if constexpr (SG >= 0) vf_assume((x < 0) == bool(SG & 1) && (y < 0) == bool(SG & 2));
    T* qr = (T*)vf_alloc(2 * sizeof(T)); qr[0] = q0; qr[1] = r0;
    k_idiv(x, y, &qr[0], &qr[1]);
    if constexpr (S && (SG < 0 || SG == 1)) { if (x < 0 && y > 0) vf_witness("negative dividend"); }
    vf_assert(is_quot(x, y, qr[0]), "idiv quot: |x| == |q| * |y| + rho, 0 <= rho < |y|, sign(q) == sign(x) xor sign(y)");
    vf_assert(qr[1] == T(UT(x) - UT(qr[0]) * UT(y)), "idiv rem == x - quot * y");
    if (W == 8) vf_assert(qr[0] == T(x / y) && qr[1] == T(x % y), "idiv == {x / y, x % y}");
}
Q q_div_sat() { div_sat_case<-1>(); }
Q q_idiv() { idiv_case<-1>(); }
#if S
Q q_div_sat_pp() { div_sat_case<0>(); } Q q_div_sat_np() { div_sat_case<1>(); } Q q_div_sat_pn() { div_sat_case<2>(); } Q q_div_sat_nn() { div_sat_case<3>(); }
Q q_idiv_pp() { idiv_case<0>(); } Q q_idiv_np() { idiv_case<1>(); } Q q_idiv_pn() { idiv_case<2>(); } Q q_idiv_nn() { idiv_case<3>(); }
#endif

// ---------------------------------------------------------------- midpoint: a + trunc((b - a) / 2), i.e. rounded towards a
Q q_midpoint()
{
    T a = nd<T>(); T b = nd<T>(); i128 d = (i128)b - (i128)a; i128 h = d >= 0 ? (d >> 1) : -((-d) >> 1);
    if (a == TMIN && b == TMAX) vf_witness("min,max"); if (a == TMAX && b == TMIN) vf_witness("max,min");
    T r = k_midpoint(a, b);
    vf_assert((i128)r == (i128)a + h, "midpoint == a + (b - a) / 2 rounded towards a"); vf_assert(r == std::midpoint(a, b), "midpoint == std");
}
Q q_midpoint_ptr()
{
    T* base = (T*)vf_alloc(PN * sizeof(T)); unsigned i = vf_nd_u32(), j = vf_nd_u32(); vf_assume(i <= PN && j <= PN);
    if (i == PN && j == 0) vf_witness("end,begin");
    int d = (int)j - (int)i; T* r = k_midpoint_ptr(base + i, base + j);
    vf_assert(r == base + ((int)i + d / 2), "midpoint(p, q) == p + (q - p) / 2 rounded towards p"); vf_assert(r == std::midpoint(base + i, base + j), "midpoint(p, q) == std");
}

// ---------------------------------------------------------------- abs / ipow / ilog2
Q q_abs()
{
    T x = nd<T>(); vf_assume(!(S && x == TMIN)); // |x| representable
    if (S && x < 0) vf_witness("negative");
    vf_assert((i128)k_abs(x) == absi(x), "abs == |x|"); vf_assert((i128)k_abs_t(x) == absi(x), "abs<T> == |x|");
}
// exact power by its definition: e successive multiplications by b, none of which overflows T (assumed: then the
// result is representable). The product itself is formed with the same wrapping multiply the flag refers to.
static T ref_pow(T b, int e, bool* ovf) { T acc = 1; for (int i = 0; i < e; i++) { T t; if (__builtin_mul_overflow(acc, b, &t)) *ovf = true; acc = T(UT(acc) * UT(b)); } return acc; }
// q_ipow carries no inner witnesses: for the 32/64-bit types it is decided by z3 on the exported verification condition (two
// multiplier chains; SAT back ends do not finish), and that route needs an entry whose only assertions are obligations.
// For 32/64-bit unsigned T no overflow assumption is needed: both sides are the product modulo 2^W (defined behaviour).
template <bool WIT> static void ipow_case()
{
    T b = nd<T>(); T e = nd<T>(); vf_assume(e >= 0 && e <= EMAX);
    bool ovf = false; T x = ref_pow(b, int(e), &ovf); if (S || W < 32) vf_assume(!ovf); // narrower unsigned types multiply in int
    if constexpr (WIT) {
        if (e == EMAX) vf_witness("largest exponent"); if (e == 0 && b == 0) vf_witness("0^0");
        if constexpr (S) { if (b < 0 && (e & 1)) vf_witness("negative base, odd exponent"); }
        if (e >= 2 && b > 2) vf_witness("non-trivial power");
    } else vf_assert(k_ipow(b, e) == x, "ipow(b, e) == b^e");
}
Q q_ipow() { ipow_case<false>(); }
Q q_ipow_wit() { ipow_case<true>(); }
static constexpr int emax_of(u64 b) { int e = 0; i128 v = 1; while (v * (i128)b <= TMAX) { v *= (i128)b; e++; } return e; } // largest e with b^e <= max
Q q_ipow_tpl()
{
    T e = nd<T>(); vf_assume(e >= 0);
    bool ovf = false;
    if (e <= emax_of(2)) { if (e == emax_of(2)) vf_witness("2^emax"); vf_assert(bits(k_ipow2(e)) == (u64(1) << e), "ipow<2>(e) == 2^e"); }
    if (e <= emax_of(3)) { if (e == emax_of(3)) vf_witness("3^emax"); vf_assert(k_ipow3(e) == ref_pow(3, int(e), &ovf), "ipow<3>(e) == 3^e"); }
    if (e <= emax_of(10)) { if (e == emax_of(10)) vf_witness("10^emax"); vf_assert(k_ipow10(e) == ref_pow(10, int(e), &ovf), "ipow<10>(e) == 10^e"); }
    vf_assert(!ovf, "reference power does not overflow inside the stated exponent range");
}
Q q_ilog2()
{
    T x = nd<T>(); vf_assume(x >= 1);
    T r = k_ilog2(x);
    if (x == TMAX) vf_witness("max"); if (x == 1) vf_witness("one");
    vf_assert(r >= 0 && r < W && (bits(x) >> r) == 1, "ilog2: 2^r <= x < 2^(r+1)");
}

// ---------------------------------------------------------------- mixed-type functions, second type U from FOR_U
#define PAIR(NU, U, SU, WU)                                                                                            \
    Q q_cmp_##NU()                                                                                                     \
    {                                                                                                                  \
        T t = nd<T>(); U u = nd<U>(); i128 a = t, b = u;                                                               \
        if (S != SU) { if (a < 0 || b < 0) vf_witness("negative vs unsigned"); if (a == b) vf_witness("equal"); }       \
        vf_assert(k_cmp_equal_##NU(t, u) == (a == b), "cmp_equal == mathematical ==");                                 \
        vf_assert(k_cmp_not_equal_##NU(t, u) == (a != b), "cmp_not_equal == mathematical !=");                         \
        vf_assert(k_cmp_less_##NU(t, u) == (a < b), "cmp_less == mathematical <");                                     \
        vf_assert(k_cmp_greater_##NU(t, u) == (a > b), "cmp_greater == mathematical >");                               \
        vf_assert(k_cmp_less_equal_##NU(t, u) == (a <= b), "cmp_less_equal == mathematical <=");                       \
        vf_assert(k_cmp_greater_equal_##NU(t, u) == (a >= b), "cmp_greater_equal == mathematical >=");                 \
        vf_assert(k_cmp_equal_##NU(t, u) == std::cmp_equal(t, u) && k_cmp_not_equal_##NU(t, u) == std::cmp_not_equal(t, u) && k_cmp_less_##NU(t, u) == std::cmp_less(t, u) \
                  && k_cmp_greater_##NU(t, u) == std::cmp_greater(t, u) && k_cmp_less_equal_##NU(t, u) == std::cmp_less_equal(t, u)                                          \
                  && k_cmp_greater_equal_##NU(t, u) == std::cmp_greater_equal(t, u), "cmp_* == std::cmp_*");            \
    }                                                                                                                  \
    Q q_in_range_##NU()                                                                                                \
    {                                                                                                                  \
        T t = nd<T>(); i128 a = t; bool e = a >= lo_of<U> && a <= hi_of<U>;                                            \
        if (e) vf_witness("in range");                                                                                 \
        vf_assert(k_in_range_##NU(t) == e, "in_range<U>(t) == (min(U) <= t <= max(U))"); vf_assert(k_in_range_##NU(t) == std::in_range<U>(t), "in_range == std"); \
    }                                                                                                                  \
    Q q_sat_cast_##NU()                                                                                                \
    {                                                                                                                  \
        T t = nd<T>(); i128 a = t;                                                                                     \
        if (TMAX > hi_of<U>) { if (a > hi_of<U>) vf_witness("saturates at max"); }                                     \
        if (TMIN < lo_of<U>) { if (a < lo_of<U>) vf_witness("saturates at min"); }                                     \
        vf_assert((i128)k_sat_cast_##NU(t) == clampi(a, lo_of<U>, hi_of<U>), "saturate_cast<U>(t) == clamp(t, min(U), max(U))"); \
    }
FOR_U(PAIR)

// ---------------------------------------------------------------- gcd / lcm against their definitions, all pairs of values
// Slices (they partition the domain): Q4 = 0..3: the top two bits of m equal Q4 (Q4 < 0: no slicing); HB >= 0 (cfg, thorough tier): the
// high byte of m equals HB.
#ifndef HB
#define HB (-1)
#endif
template <int Q4> static void slice(T m)
{
    if constexpr (Q4 >= 0) vf_assume(int(bits(m) >> (W - 2)) == Q4);
    if (HB >= 0) vf_assume(int(bits(m) >> (W - 8)) == HB);
}
template <int B> using uint_bits = std::conditional_t<(B <= 8), uint8_t, std::conditional_t<(B <= 16), uint16_t, std::conditional_t<(B <= 32), uint32_t, u64>>>;
// greatest common divisor: g == 0 iff m == n == 0; otherwise 0 < g <= max(|m|, |n|), g divides |m| and |n|, and every common divisor d
// (symbolic; d <= max(|m|, |n|) without loss of generality, so the remainders are taken in a type of max(W, WU) bits) is <= g
template <typename U, ct_t<T, U> (*KF)(T, U), int Q4, int WU> static void gcd_case()
{
    typedef ct_t<T, U> C; typedef uint_bits<(W > WU ? W : WU)> R; T m = nd<T>(); U n = nd<U>(); R d = nd<R>();
    i128 am = absi(m), an = absi(n), mx = am > an ? am : an;
    vf_assume(am <= hi_of<C> && an <= hi_of<C>); // std: |m| and |n| representable in the common type
    if constexpr (WU > W) vf_assume(an <= TMAX); // bound of the all-pairs queries with a wider second type: |n| within the range of T (q_gcd_zero_* covers the rest)
    slice<Q4>(m);
    VF_KNOWN(C14_gcd_negative, m < 0 || n < 0);
    VF_KNOWN(C14_gcd_mixed_narrowing, (i128)T(n) != (i128)n);
    C g = KF(m, n);
    if (am == 0 && an == 0) { if constexpr (Q4 < 0) vf_witness("0,0"); vf_assert(g == 0, "gcd(0, 0) == 0"); }
    else {
        if constexpr (Q4 < 0) { if (an == 0) vf_witness("n == 0"); if (am == 0) vf_witness("m == 0"); }
        bool rng = g > 0 && (i128)g <= mx;
        vf_assert(rng, "0 < gcd <= max(|m|, |n|)");
        if (rng) {
            vf_assert(R(am) % R(g) == 0 && R(an) % R(g) == 0, "gcd divides |m| and |n|");
            if (d > 0 && R(am) % d == 0 && R(an) % d == 0) { if (d == R(g) && g > 1) vf_witness("nontrivial divisor"); vf_assert(d <= R(g), "every common divisor is <= gcd"); }
        }
    }
}
template <typename U, ct_t<T, U> (*KF)(T, U), int Q4> static void gcd_std_case()
{
    typedef ct_t<T, U> C; T m = nd<T>(); U n = nd<U>();
    vf_assume(absi(m) <= hi_of<C> && absi(n) <= hi_of<C>);
    slice<Q4>(m);
    VF_KNOWN(C14_gcd_negative, m < 0 || n < 0);
    VF_KNOWN(C14_gcd_mixed_narrowing, (i128)T(n) != (i128)n);
    if (n > 1) vf_witness("n > 1");
    vf_assert(KF(m, n) == std::gcd(m, n), "gcd == std");
}
// gcd with one operand 0, every type pair, the other operand over its full range (two Euclid steps): gcd(0, n) == |n|, gcd(m, 0) == |m|
template <typename U, ct_t<T, U> (*KF)(T, U)> static void gcd_zero_case()
{
    typedef ct_t<T, U> C; T m = nd<T>(); U n = nd<U>();
    vf_assume(absi(m) <= hi_of<C> && absi(n) <= hi_of<C>);
    VF_KNOWN(C14_gcd_negative, m < 0 || n < 0);
    VF_KNOWN(C14_gcd_mixed_narrowing, (i128)T(n) != (i128)n);
    if (n > 1 && m > 1) vf_witness("operands > 1");
    vf_assert((i128)KF(0, n) == absi(n), "gcd(0, n) == |n|");
    vf_assert((i128)KF(m, 0) == absi(m), "gcd(m, 0) == |m|");
}
// least common multiple: 0 if an operand is 0; otherwise a positive common multiple of |m| and |n| that is <= every representable
// common multiple c (symbolic; c <= |m| * |n| without loss of generality). Assuming that such a c exists is exactly the std
// precondition "the lcm is representable in the common type".
template <typename U, ct_t<T, U> (*KF)(T, U), int Q4, int WU, bool STD> static void lcm_case()
{
    typedef ct_t<T, U> C; typedef decltype(T() * U()) P; typedef uint_bits<(W + WU < int(8 * sizeof(C)) ? W + WU : int(8 * sizeof(C)))> R;
    T m = nd<T>(); U n = nd<U>(); R c = nd<R>();
    i128 am = absi(m), an = absi(n);
    vf_assume(am <= hi_of<C> && an <= hi_of<C>);
    slice<Q4>(m);
    if (am != 0 && an != 0) vf_assume(c > 0 && (i128)c <= hi_of<C> && c % R(am) == 0 && c % R(an) == 0);
    VF_KNOWN(C14_lcm_zero_zero, m == 0 && n == 0);
    VF_KNOWN(C14_lcm_negative, m < 0 || n < 0);
#if VF_KF_C14_lcm_negative != 2 // same region: lcm inherits the gcd defect; not while the lcm finding itself is being confirmed
    VF_KNOWN(C14_gcd_negative, m < 0 || n < 0);
#endif
    VF_KNOWN(C14_gcd_mixed_narrowing, (i128)T(n) != (i128)n);
    VF_KNOWN(C14_lcm_intermediate_overflow, mulw<W + WU>(m, n) > hi_of<P> || mulw<W + WU>(m, n) < lo_of<P>);
    C l = KF(m, n);
    if constexpr (STD) { if (am > 1 && an > 1) vf_witness("both > 1"); vf_assert(l == std::lcm(m, n), "lcm == std"); }
    else if (am == 0 || an == 0) { if constexpr (Q4 <= 0) vf_witness("zero operand"); vf_assert(l == 0, "lcm == 0 when an operand is 0"); }
    else {
        bool rng = l > 0 && (i128)l <= (i128)c;
        vf_assert(rng, "0 < lcm <= every representable common multiple");
        if (rng) {
            if (c == R(l) && (i128)l > am && (i128)l > an) vf_witness("proper multiple");
            vf_assert(R(l) % R(am) == 0 && R(l) % R(an) == 0, "lcm is a common multiple of |m| and |n|");
        }
    }
}
#define GCDLCM(NU, U, SU, WU)                                                                                          \
    Q q_gcd_##NU() { gcd_case<U, k_gcd_##NU, -1, WU>(); }                                                                  \
    Q q_gcd_##NU##_q0() { gcd_case<U, k_gcd_##NU, 0, WU>(); } Q q_gcd_##NU##_q1() { gcd_case<U, k_gcd_##NU, 1, WU>(); }        \
    Q q_gcd_##NU##_q2() { gcd_case<U, k_gcd_##NU, 2, WU>(); } Q q_gcd_##NU##_q3() { gcd_case<U, k_gcd_##NU, 3, WU>(); }        \
    Q q_gcd_std_##NU() { gcd_std_case<U, k_gcd_##NU, -1>(); }                                                          \
    Q q_gcd_zero_##NU() { gcd_zero_case<U, k_gcd_##NU>(); }                                                            \
    Q q_lcm_##NU() { lcm_case<U, k_lcm_##NU, -1, WU, false>(); }                                                       \
    Q q_lcm_##NU##_q0() { lcm_case<U, k_lcm_##NU, 0, WU, false>(); } Q q_lcm_##NU##_q1() { lcm_case<U, k_lcm_##NU, 1, WU, false>(); } \
    Q q_lcm_##NU##_q2() { lcm_case<U, k_lcm_##NU, 2, WU, false>(); } Q q_lcm_##NU##_q3() { lcm_case<U, k_lcm_##NU, 3, WU, false>(); } \
    Q q_lcm_std_##NU() { lcm_case<U, k_lcm_##NU, -1, WU, true>(); }
FOR_U(GCDLCM)

// gcd / lcm on the slices that need a bounded number of Euclid steps at every width: (x, x) and (x, 0), (0, x), (x, 1), (1, x)
Q q_gcd_diag()
{
    T x = nd<T>(); vf_assume(!(S && x == TMIN));
    VF_KNOWN(C14_gcd_negative, x < 0);
    if (x == TMAX) vf_witness("max"); if (x == 0) vf_witness("zero");
    vf_assert((i128)SELF(k_gcd_)(x, x) == absi(x), "gcd(x, x) == |x|");
}
Q q_gcd_unit()
{
    T x = nd<T>(); vf_assume(!(S && x == TMIN));
    VF_KNOWN(C14_gcd_negative, x < 0);
    if (x == TMAX) vf_witness("max"); if (x == 0) vf_witness("zero");
    vf_assert((i128)SELF(k_gcd_)(x, 0) == absi(x), "gcd(x, 0) == |x|"); vf_assert((i128)SELF(k_gcd_)(0, x) == absi(x), "gcd(0, x) == |x|");
    vf_assert(SELF(k_gcd_)(x, 1) == 1 && SELF(k_gcd_)(1, x) == 1, "gcd(x, 1) == gcd(1, x) == 1");
}
Q q_lcm_diag()
{
    T x = nd<T>(); vf_assume(!(S && x == TMIN));
    VF_KNOWN(C14_lcm_zero_zero, x == 0);
    VF_KNOWN(C14_lcm_negative, x < 0);
#if VF_KF_C14_lcm_negative != 2
    VF_KNOWN(C14_gcd_negative, x < 0);
#endif
    VF_KNOWN(C14_lcm_intermediate_overflow, mulw<2 * W>(x, x) > hi_of<prod_t> || mulw<2 * W>(x, x) < lo_of<prod_t>);
    if (x > 1) vf_witness("x > 1");
    vf_assert((i128)SELF(k_lcm_)(x, x) == absi(x), "lcm(x, x) == |x|");
}
Q q_lcm_unit()
{
    T x = nd<T>(); vf_assume(!(S && x == TMIN));
    VF_KNOWN(C14_lcm_negative, x < 0);
#if VF_KF_C14_lcm_negative != 2
    VF_KNOWN(C14_gcd_negative, x < 0);
#endif
    if (x == TMAX) vf_witness("max"); if (x == 0) vf_witness("zero");
    vf_assert((i128)SELF(k_lcm_)(x, 1) == absi(x) && (i128)SELF(k_lcm_)(1, x) == absi(x), "lcm(x, 1) == lcm(1, x) == |x|");
}
Q q_lcm_zero()
{
    T x = nd<T>(); vf_assume(!(S && x == TMIN));
    VF_KNOWN(C14_lcm_zero_zero, x == 0);
    VF_KNOWN(C14_lcm_negative, x < 0);
#if VF_KF_C14_lcm_negative != 2
    VF_KNOWN(C14_gcd_negative, x < 0);
#endif
    if (x == TMAX) vf_witness("max");
    vf_assert(SELF(k_lcm_)(x, 0) == 0 && SELF(k_lcm_)(0, x) == 0, "lcm(x, 0) == lcm(0, x) == 0");
}

// powers of two at every width: gcd(2^a, 2^b) == 2^min(a, b), lcm(2^a, 2^b) == 2^max(a, b) (at most three Euclid steps)
Q q_gcd_pow2()
{
    unsigned a = vf_nd_u8(), b = vf_nd_u8(); vf_assume(a < W - S && b < W - S);
    T m = T(u64(1) << a), n = T(u64(1) << b);
    if (a == W - S - 1 && b == 0) vf_witness("largest, smallest");
    vf_assert(bits(SELF(k_gcd_)(m, n)) == (u64(1) << (a < b ? a : b)), "gcd(2^a, 2^b) == 2^min(a, b)");
}
Q q_lcm_pow2()
{
    unsigned a = vf_nd_u8(), b = vf_nd_u8(); vf_assume(a < W - S && b < W - S);
    T m = T(u64(1) << a), n = T(u64(1) << b);
    VF_KNOWN(C14_lcm_intermediate_overflow, mulw<2 * W>(m, n) > hi_of<prod_t>);
    if (a == b && a >= 1) vf_witness("equal exponents");
    vf_assert(bits(SELF(k_lcm_)(m, n)) == (u64(1) << (a > b ? a : b)), "lcm(2^a, 2^b) == 2^max(a, b)");
}

// ---------------------------------------------------------------- host <-> network byte order (network = most significant byte first)
Q q_byte_order8()
{
    uint8_t v = vf_nd_u8();
    vf_assert(k_hton_u8(v) == v && k_ntoh_u8(v) == v, "hton/ntoh(uint8_t) is the identity");
    vf_assert(k_hton_i8(int8_t(v)) == int8_t(v) && k_ntoh_i8(int8_t(v)) == int8_t(v), "hton/ntoh(int8_t) is the identity");
    vf_assert(k_hton_c(char(v)) == char(v) && k_ntoh_c(char(v)) == char(v), "hton/ntoh(char) is the identity");
}
Q q_byte_order16()
{
    uint16_t v = vf_nd_u16(); uint8_t* mem = (uint8_t*)vf_alloc(2);
    uint16_t n = k_hton_u16(v); __builtin_memcpy(mem, &n, 2);
    vf_assert(mem[0] == (v >> 8) && mem[1] == (v & 0xff), "hton(uint16_t): most significant byte first in memory");
    mem[0] = vf_nd_u8(); mem[1] = vf_nd_u8(); uint16_t w; __builtin_memcpy(&w, mem, 2);
    vf_assert(k_ntoh_u16(w) == uint16_t((mem[0] << 8) | mem[1]), "ntoh(uint16_t): value of the big-endian byte sequence");
    vf_assert(k_ntoh_u16(k_hton_u16(v)) == v, "ntoh(hton(v)) == v");
}
Q q_byte_order32()
{
    uint32_t v = vf_nd_u32(); uint8_t* mem = (uint8_t*)vf_alloc(4);
    uint32_t n = k_hton_u32(v); __builtin_memcpy(mem, &n, 4);
    vf_assert(mem[0] == (v >> 24) && mem[1] == ((v >> 16) & 0xff) && mem[2] == ((v >> 8) & 0xff) && mem[3] == (v & 0xff), "hton(uint32_t): most significant byte first in memory");
    for (int i = 0; i < 4; i++) mem[i] = vf_nd_u8();
    uint32_t w; __builtin_memcpy(&w, mem, 4);
    vf_assert(k_ntoh_u32(w) == ((uint32_t(mem[0]) << 24) | (uint32_t(mem[1]) << 16) | (uint32_t(mem[2]) << 8) | mem[3]), "ntoh(uint32_t): value of the big-endian byte sequence");
    vf_assert(k_ntoh_u32(k_hton_u32(v)) == v, "ntoh(hton(v)) == v");
}
