import json
import os

PROPERTIES = ['C14', 'C02']
BOUNDS = {
    'quick': 'types {u,i}{8,16,32,64}; every argument symbolic over the full range of its type (all pairs of values for binary functions, rotation count over '
             'all of int, bit positions < width). Full width for all 4 unsigned types: popcount (+fallback), countl/countr_zero/one, bit_width, bit_ceil, bit_floor, '
             'has_single_bit, rotl, rotr, set/reset/flip/test_bit (run-time position and compile-time positions 0 and width-1), byteswap_fallback; for all 8 types: '
             'byteswap, add_sat (+fallback), midpoint, midpoint(T*, T*) inside a 7-element array, abs, ilog2, ipow<2|3|10>(e) for every e with a representable result, '
             'ipow(b, e) with e symbolic in 0..8, div_sat and idiv (int32_t: one query per operand-sign case; int64_t: only the same-sign cases pp and nn). '
             'cmp_equal..cmp_greater_equal, in_range, saturate_cast: all 64 ordered type pairs. gcd/lcm over all pairs of values for (u8,u8) and (i8,i8) (definition and '
             'std::gcd/std::lcm), gcd for (u8,i8), (i8,u8), (u8,u16) with |n| <= 255 (Euclid unwound 15/18); gcd(0, n) and gcd(m, 0) for all 64 ordered type pairs; at every width the slices gcd(x,x), gcd/lcm of (x,0), (0,x), (x,1), (1,x) and '
             '(2^a, 2^b); lcm(x,x) 8-bit only. hton/ntoh: char, int8_t, uint8_t, uint16_t, uint32_t',
    'thorough': 'as quick, plus: ipow exponent 0..16 (int64_t: 0..8, z3 gave no verdict in 600 s for 16); pointer midpoint inside a 33-element array; div_sat/idiv int64_t '
                'mixed-sign cases (np, pn; 2400 s budget, measured 1180-2250 s on a machine with load 45); lcm for (u8,i8), (i8,u8); gcd for (u8,i16), (i8,u16), (i8,i16) with |n| within the range of the first type; lcm(x,x) 16-bit. Outside the bound: gcd/lcm over all pairs for 16-bit x 16-bit and wider (one of the 256 '
                'high-byte slices of uint16_t gcd: no verdict in 900 s, so the split planned in DESIGN.md is not run), gcd (u16,u8) (no verdict in 400 s), lcm (u8,u16) (no verdict in 1500 s), lcm(x,x) for 32/64 bits '
                '(no verdict in 1200 s)',
}
ASSUMPTIONS = [
    'C14: documented domains assumed: bit_ceil result representable; set/reset/flip/test_bit pos < width; div_sat/idiv divisor != 0 and idiv not (min, -1); '
    'abs argument != min; ipow exponent >= 0 and (signed and 8/16-bit types) no intermediate product overflows, which for |b| >= 2 is the same as a representable result '
    '(32/64-bit unsigned: compared modulo 2^W); ilog2 argument >= 1; gcd/lcm: |m|, |n| and the lcm representable in the common type (std::gcd/std::lcm preconditions)',
    'C14: oracles: bit functions = predicates over the result (e.g. countl_zero r: x >> (W-1-r) == 1) plus std <bit>; add_sat/saturate_cast/midpoint/abs/cmp_*/in_range = '
    '__int128 arithmetic (plus std::midpoint, std::cmp_*, std::in_range); quotients = multiplicative definition |x| == |q||y| + rho, 0 <= rho < |y|, sign rule, '
    'rem == x - q*y; ipow = e successive wrapping multiplications with an overflow flag per step (it is the definition, and the only form a solver can relate to the '
    'kernel: 32/64-bit instances are decided by z3 on the exported VC); gcd = divides both and >= every symbolic common divisor; lcm = positive common multiple <= every '
    'symbolic representable common multiple. div_sat, add_sat, saturate_cast, byteswap, ipow, ilog2, idiv have no std counterpart in C++20 libstdc++-12, so no second oracle',
    'C14: the kernel TU is compiled with -Wno-everything; without it clang rejects etl::bit_ceil<uint8_t/uint16_t> (narrowing inside braces, bit_ceil.hpp:35) - reported separately',
    'C14: code under test is the clang configuration (popcount/byteswap/add_sat take the __builtin_* branch); the portable fallbacks detail::popcount_fallback, '
    'detail::byteswap_fallback and detail::add_sat_fallback are called directly as well; llvm.ctpop/bswap/fsh*/add.sat are modelled by the reference loops of engine/ll_rt_common.h',
    'C14: translated with ll2c --divrem-narrow (signed division at operand width with the MIN / -1 case made explicit; x % y directly after x / y computed as x - (x / y) * y); '
    'CBMC division semantics are trusted; an over-wide shift (poison in LLVM) evaluates to 0 in the model, source-level shift UB is left to the C02 build of the same queries',
    'C14/C02: while the findings C14_gcd_negative, C14_gcd_mixed_narrowing, C14_lcm_zero_zero, C14_lcm_negative, C14_lcm_intermediate_overflow are open their input regions are '
    'excluded from the gcd/lcm queries; C02 runs skip the mixed-signedness gcd pairs (etl::gcd<int8_t, uint8_t>(-6, 4) recurses forever - stack overflow natively - which the UB instrumentation does not model)',
]

# translator option (engine/ll2c.py): signed division at the operand width, and x % y right after x / y reuses the quotient
LL2C_FLAGS = ['--divrem-narrow']

TYPES = [('u8', 'uint8_t', 0, 8), ('i8', 'int8_t', 1, 8), ('u16', 'uint16_t', 0, 16), ('i16', 'int16_t', 1, 16),
         ('u32', 'uint32_t', 0, 32), ('i32', 'int32_t', 1, 32), ('u64', 'uint64_t', 0, 64), ('i64', 'int64_t', 1, 64)]
BYNAME = {t[0]: t for t in TYPES}
BITOPS = ['popcount', 'popcount_fb', 'countl_zero', 'countl_one', 'countr_zero', 'countr_one', 'bit_width', 'bit_ceil', 'bit_floor',
          'has_single_bit', 'rotl', 'rotr', 'set_bit', 'set_bit_v', 'reset_bit', 'flip_bit', 'test_bit', 'bit_tpl']          # unsigned types only
PLAIN = ['byteswap', 'add_sat', 'add_sat_fb', 'midpoint', 'midpoint_ptr', 'abs', 'ipow_tpl', 'ilog2']                           # all types
EUCLID_SLICES = ['gcd_diag', 'gcd_unit', 'gcd_pow2', 'lcm_unit', 'lcm_zero', 'lcm_pow2']                                        # all types, <= 4 Euclid steps
SIGNS = ['pp', 'np', 'pn', 'nn']


def open_ids():
    ids = set()
    here = os.path.dirname(os.path.abspath(__file__))
    for p in (os.path.join(here, 'kf.json'), os.path.join(here, '..', '..', 'known_findings.json')):
        if os.path.exists(p):
            d = json.load(open(p))
            for k in (d.get('open', []) if isinstance(d, dict) else d):
                if isinstance(k, dict) and 'id' in k:
                    ids.add(k['id'])
    return ids


def queries(tier, prop='C14'):
    ub = prop == 'C02'
    quick = tier == 'quick'
    emax = 8 if quick else 16
    out = []

    def add(entry, t, unwind, solver=None, budget=120, extra=None):
        n, ty, s, w = t
        cfg = {'T': ty, 'N': n, 'S': s, 'W': w, 'EMAX': emax if (n != 'i64') else 8}   # int64_t, exponent <= 16: z3 gave no verdict in 600 s
        if not quick:
            cfg['PN'] = 33
        cfg.update(extra or {})
        out.append(dict(entry='q_' + entry, cfg=cfg, unwind=unwind, solver=solver or ('kissat' if w >= 32 else 'minisat'), budget=budget, ub=ub, nofunc=ub))

    for t in TYPES:
        n, ty, s, w = t
        for e in PLAIN:
            add(e, t, w + 2)
        if not s:
            for e in BITOPS:
                add(e, t, max(w, 32) + 2)   # libstdc++ <bit> uses the 32-bit builtins for the promoted types: ll_ctlz_32 etc. loop 32 times
            if w > 8:
                add('byteswap_fb', t, 10)
        for e in EUCLID_SLICES:
            add(e, t, 6)
        if w == 8 or (w == 16 and not quick):
            add('lcm_diag', t, 6, solver='kissat', budget=120 if w == 8 else 900)   # (x * x) / x: not decided in 100 s beyond 8 bits (measured)
        # quotients: multiplicative definition, kissat; 32/64-bit signed: one query per sign case
        for e in ('div_sat', 'idiv'):
            if not s or w <= 16:
                add(e, t, 4, solver='kissat')
            else:
                for sg in SIGNS:
                    hard = w == 64 and sg in ('np', 'pn')   # measured 680 s / 1290 s (loaded machine): thorough tier only
                    if hard and quick:
                        continue
                    add('%s_%s' % (e, sg), t, 4, solver='kissat', budget=2400 if hard else 120)
        # ipow, symbolic base and exponent: two multiplier chains; z3 on the exported VC for 32/64 bits (SAT back ends do not finish)
        em = emax if n != 'i64' else 8
        add('ipow', t, em + 2, solver='minisat' if w < 32 else 'z3', budget=120 if quick else 600)
        add('ipow_wit', t, em + 2, solver='minisat' if w < 32 else 'kissat')
        for (nu, tyu, su, wu) in TYPES:
            for e in ('cmp', 'in_range', 'sat_cast', 'gcd_zero'):
                add('%s_%s' % (e, nu), t, 5)
    # gcd / lcm over all pairs of values (Euclid: at most 12 remainder steps for 8-bit operands, one more when the first operand is wider)
    def pair(e, tn, un, unwind, budget=120):
        if ub and BYNAME[tn][2] != BYNAME[un][2]:
            return   # C02: mixed signedness is inside the C14 gcd regions (can recurse forever); checked under C14 only
        add('%s_%s' % (e, un), BYNAME[tn], unwind, solver='kissat', budget=budget)
    for tn, un in (('u8', 'u8'), ('i8', 'i8')):
        pair('gcd', tn, un, 15); pair('lcm', tn, un, 15); pair('gcd_std', tn, un, 20); pair('lcm_std', tn, un, 20)
    for tn, un in (('u8', 'i8'), ('i8', 'u8')):
        pair('gcd', tn, un, 15)
        if not quick:
            pair('lcm', tn, un, 15, budget=1500)   # common type int: no verdict in 400 s on a loaded machine
    pair('gcd', 'u8', 'u16', 18)
    if not quick:
        for tn, un in (('u8', 'i16'), ('i8', 'u16'), ('i8', 'i16')):
            pair('gcd', tn, un, 18, budget=900)
    add('byte_order8', TYPES[0], 4)
    add('byte_order16', TYPES[0], 4)
    add('byte_order32', TYPES[0], 6)
    return out
