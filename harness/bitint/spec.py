import json
import os

PROPERTIES = ['C14', 'C02']
BOUNDS = {
    'quick': 'types {u,i}{8,16,32,64}; every argument symbolic over the full range of its type (all pairs for binary functions, rotation '
             'count over all of int, bit positions < width); cmp_*/in_range/saturate_cast for all 64 ordered type pairs; ipow exponent 0..8 '
             '(compile-time bases 2, 3, 10: every exponent whose result is representable); gcd/lcm all pairs for the 8-bit x 8-bit and '
             '8-bit x 16-bit type pairs (unwind 14+), and for every width the slices (x,x), (x,0), (0,x), (x,1), (1,x); '
             'midpoint(T*, T*) inside a 7-element array; hton/ntoh for char, (u)int8_t, uint16_t, uint32_t',
    'thorough': 'as quick, ipow exponent 0..16, and gcd/lcm uint16_t x uint16_t split 256 ways on the high byte of the first operand (unwind 25, 900 s per slice); '
                'gcd/lcm for general 32/64-bit pairs are outside the bound',
}
ASSUMPTIONS = [
    'C14: documented domains assumed: bit_ceil result representable; set/reset/flip/test_bit pos < width; div_sat/idiv divisor != 0 and idiv not (min, -1); '
    'abs argument != min; ipow exponent >= 0 and result representable (then no intermediate product overflows); ilog2 argument >= 1; '
    'gcd/lcm: |m|, |n| and the lcm representable in the common type (std::gcd/std::lcm preconditions)',
    'C14: the kernel TU is compiled with -Wno-everything; without it clang rejects etl::bit_ceil<uint8_t/uint16_t> (narrowing in braces, bit_ceil.hpp:35) - reported separately',
    'C14: code under test is the clang configuration (popcount/byteswap/add_sat take the __builtin_* branch); the portable fallbacks detail::popcount_fallback, '
    'detail::byteswap_fallback and detail::add_sat_fallback are called directly as well; llvm.ctpop/bswap/fsh*/add.sat are modelled by the reference loops of engine/ll_rt_common.h',
    'C14: quotient/remainder oracles use the C operators / and % in a wider type (64-bit: same width), i.e. CBMC division semantics are trusted',
]

# translator option (engine/ll2c.py): signed division at the operand width, and x % y right after x / y reuses the quotient
LL2C_FLAGS = ['--divrem-narrow']

TYPES = [('u8', 'uint8_t', 0, 8), ('i8', 'int8_t', 1, 8), ('u16', 'uint16_t', 0, 16), ('i16', 'int16_t', 1, 16),
         ('u32', 'uint32_t', 0, 32), ('i32', 'int32_t', 1, 32), ('u64', 'uint64_t', 0, 64), ('i64', 'int64_t', 1, 64)]
UNSIGNED_ONLY = ['popcount', 'popcount_fb', 'countl_zero', 'countl_one', 'countr_zero', 'countr_one', 'bit_width', 'bit_ceil', 'bit_floor',
                 'has_single_bit', 'rotl', 'rotr', 'set_bit', 'set_bit_v', 'reset_bit', 'flip_bit', 'test_bit', 'bit_tpl']
ALL_TYPES = ['byteswap', 'add_sat', 'add_sat_fb', 'div_sat', 'idiv', 'midpoint', 'midpoint_ptr', 'abs', 'ipow', 'ipow_tpl', 'ilog2', 'gcd_diag', 'lcm_diag']
HARD = {'div_sat', 'idiv', 'ipow', 'lcm_diag'}   # division / multiplication circuits: kissat


def open_ids():
    ids = set()
    here = os.path.dirname(os.path.abspath(__file__))
    for p in (os.path.join(here, 'kf.json'), os.path.join(here, '..', '..', 'known_findings.json')):
        if os.path.exists(p):
            d = json.load(open(p))
            for k in (d.get('open', []) if isinstance(d, dict) else d):
                ids.add(k['id'])
    return ids


def queries(tier, prop='C14'):
    ub = prop == 'C02'
    emax = 8 if tier == 'quick' else 16
    out = []

    def add(entry, t, unwind, solver='minisat', budget=120, extra=None, unwindset=None):
        n, ty, s, w = t
        cfg = {'T': ty, 'N': n, 'S': s, 'W': w, 'EMAX': emax}
        cfg.update(extra or {})
        q = dict(entry='q_' + entry, cfg=cfg, unwind=unwind, solver=solver, budget=budget, ub=ub, nofunc=ub)
        if unwindset:
            q['unwindset'] = unwindset
        out.append(q)

    for t in TYPES:
        n, ty, s, w = t
        names = ALL_TYPES + (UNSIGNED_ONLY if not s else []) + (['byteswap_fb'] if (not s and w > 8) else [])
        for e in names:
            unwind = max(w, 32) + 2   # libstdc++ <bit> uses the 32-bit builtins for the promoted types: ll_ctlz_32 etc. loop 32 times
            if e == 'ipow':
                unwind = emax + 2
            add(e, t, unwind, solver='kissat' if w >= 32 else 'minisat')
        for (nu, tyu, su, wu) in TYPES:
            for e in ('cmp', 'in_range', 'sat_cast'):
                add('%s_%s' % (e, nu), t, 4)
    # gcd / lcm, all pairs of values: 8 x 8 and 8 x 16 bit type pairs
    small = [t for t in TYPES if t[3] == 8]
    mid = [t for t in TYPES if t[3] == 16]
    for t in small + mid:
        for u in small + (mid if t[3] == 8 else []):
            bits = t[3] + u[3]
            for e in ('gcd', 'lcm'):
                add('%s_%s' % (e, u[0]), t, 20 if bits == 16 else 28, solver='kissat')
    add('byte_order8', TYPES[0], 4)
    add('byte_order16', TYPES[0], 4)
    add('byte_order32', TYPES[0], 6)
    return out
