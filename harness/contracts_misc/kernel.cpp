// C05 kernels (misc): bitset / basic_bitset single-bit operations and string constructor, bit utilities, div_sat,
// chrono::day / month constructors, static_set range constructor, layout_left/right/stride::mapping::stride,
// cstring / cwchar null-pointer checks. Thin wrappers, built with contract checks and the custom handler.
#include "c05_kernel.h" // first: contract configuration + etl::assert_handler
#include <etl/array.hpp>
#include <etl/bit.hpp>
#include <etl/bitset.hpp>
#include <etl/chrono.hpp>
#include <etl/cstring.hpp>
#include <etl/cwchar.hpp>
#include <etl/mdspan.hpp>
#include <etl/new.hpp>
#include <etl/numeric.hpp>
#include <etl/set.hpp>
#include <etl/span.hpp>
#include <etl/string_view.hpp>
#include "vf.h" // after the library headers (K and Q are macros)
#ifndef NBITS
#define NBITS 9
#endif
#ifndef WORDT
#define WORDT uint8_t
#endif
#ifndef SETCAP
#define SETCAP 2
#endif
using u64 = uint64_t;
using sz = etl::size_t;

// ---- bitset<NBITS>
using BS = etl::bitset<NBITS>;
#define BM(p) (*static_cast<BS*>(p))
#define BC(p) (*static_cast<BS const*>(p))
K u64 k_bs_sizeof() { return sizeof(BS); }
K void k_bs_new(void* p, unsigned long long v) { ::new (p) BS(v); }
K bool k_bs_peek(void const* p, sz i) { return BC(p).test(i); } // driver calls it with i < NBITS only
K void k_bs_set(void* p, sz pos, bool v) { BM(p).set(pos, v); }
K void k_bs_reset(void* p, sz pos) { BM(p).reset(pos); }
K void k_bs_flip(void* p, sz pos) { BM(p).flip(pos); }
K bool k_bs_sub(void* p, sz pos) { return bool(BM(p)[pos]); }
K void k_bs_sub_write(void* p, sz pos, bool v) { BM(p)[pos] = v; }
K bool k_bs_sub_c(void const* p, sz pos) { return BC(p)[pos]; }
K bool k_bs_test(void const* p, sz pos) { return BC(p).test(pos); }
K void k_bs_from_sv(void* p, char const* s, sz sn, sz pos, sz n) { ::new (p) BS(etl::string_view(s, sn), pos, n); }
// ---- basic_bitset<NBITS, WORDT>
using BB = etl::basic_bitset<NBITS, WORDT>;
#define BBM(p) (*static_cast<BB*>(p))
#define BBC(p) (*static_cast<BB const*>(p))
K u64 k_bb_sizeof() { return sizeof(BB); }
K void k_bb_new(void* p, unsigned long long v) { ::new (p) BB(v); }
K bool k_bb_peek(void const* p, sz i) { return BBC(p).unchecked_test(i); }
K bool k_bb_sub_c(void const* p, sz pos) { return BBC(p)[pos]; }
K bool k_bb_sub(void* p, sz pos) { return bool(BBM(p)[pos]); }
K bool k_bb_utest(void const* p, sz pos) { return BBC(p).unchecked_test(pos); }
K void k_bb_uset(void* p, sz pos, bool v) { BBM(p).unchecked_set(pos, v); }
K void k_bb_ureset(void* p, sz pos) { BBM(p).unchecked_reset(pos); }
K void k_bb_uflip(void* p, sz pos) { BBM(p).unchecked_flip(pos); }

// ---- bit utilities, widths 8/16/32/64 (parameter types are exactly the library's: UInt word, UInt pos)
#define BITK(W, T)                                                                                                     \
    K T k_setbit_##W(T w, T pos) { return etl::set_bit(w, pos); }                                                      \
    K T k_setbitv_##W(T w, T pos, bool v) { return etl::set_bit(w, pos, v); }                                          \
    K T k_resetbit_##W(T w, T pos) { return etl::reset_bit(w, pos); }                                                  \
    K T k_flipbit_##W(T w, T pos) { return etl::flip_bit(w, pos); }                                                    \
    K bool k_testbit_##W(T w, T pos) { return etl::test_bit(w, pos); }
BITK(8, uint8_t)
BITK(16, uint16_t)
BITK(32, uint32_t)
BITK(64, uint64_t)

// ---- div_sat
K int8_t k_divsat_i8(int8_t x, int8_t y) { return etl::div_sat(x, y); }
K int32_t k_divsat_i32(int32_t x, int32_t y) { return etl::div_sat(x, y); }
K int64_t k_divsat_i64(int64_t x, int64_t y) { return etl::div_sat(x, y); }
K uint16_t k_divsat_u16(uint16_t x, uint16_t y) { return etl::div_sat(x, y); }
K uint32_t k_divsat_u32(uint32_t x, uint32_t y) { return etl::div_sat(x, y); }

// ---- chrono::day / month
K unsigned k_day(unsigned d) { return static_cast<unsigned>(etl::chrono::day(d)); }
K unsigned k_month(unsigned m) { return static_cast<unsigned>(etl::chrono::month(m)); }

// ---- static_set<int, SETCAP>(first, last)
using SS = etl::static_set<int, SETCAP>;
K u64 k_ss_sizeof() { return sizeof(SS); }
K void k_ss_range(void* p, int const* first, int const* last) { ::new (p) SS(first, last); }
K u64 k_ss_size(void const* p) { return static_cast<SS const*>(p)->size(); }

// ---- mdspan layout mappings: stride(r), extents<int, 2, 3>
using EX = etl::extents<int, 2, 3>;
K int k_left_stride(sz r) { return etl::layout_left::mapping<EX>(EX{}).stride(r); }
K int k_right_stride(sz r) { return etl::layout_right::mapping<EX>(EX{}).stride(r); }
K int k_stride_stride(int const* s, sz r) { return etl::layout_stride::mapping<EX>(EX{}, etl::span<int const, 2>(s, 2)).stride(r); }

// ---- cstring / cwchar
K void* k_memmove(void* d, void const* s, sz n) { return etl::memmove(d, s, n); }
K char const* k_strchr_c(char const* s, int ch) { return etl::strchr(s, ch); }
K char* k_strchr(char* s, int ch) { return etl::strchr(s, ch); }
K char* k_strcpy(char* d, char const* s) { return etl::strcpy(d, s); }
K char* k_strncpy(char* d, char const* s, sz n) { return etl::strncpy(d, s, n); }
K wchar_t* k_wcscpy(wchar_t* d, wchar_t const* s) { return etl::wcscpy(d, s); }
K wchar_t* k_wcsncpy(wchar_t* d, wchar_t const* s, sz n) { return etl::wcsncpy(d, s, n); }
