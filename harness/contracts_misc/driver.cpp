// C05 driver (misc): bitset / basic_bitset bit positions and string constructor, bit utilities, div_sat, chrono day/month,
// static_set range constructor, mdspan mapping stride(r), cstring / cwchar null arguments. One operation per query, arguments
// unconstrained (valid and violating in the same query); see contracts_common/c05.h for what is asserted.
#include "c05.h"
#include <wchar.h>
#ifndef NBITS
#define NBITS 9
#endif
#ifndef SLEN
#define SLEN 3
#endif
#ifndef SETCAP
#define SETCAP 2
#endif
#ifndef SRCN
#define SRCN 4
#endif
using sz = size_t;
extern "C" {
u64 k_bs_sizeof(); void k_bs_new(void*, unsigned long long); bool k_bs_peek(void const*, sz);
void k_bs_set(void*, sz, bool); void k_bs_reset(void*, sz); void k_bs_flip(void*, sz); bool k_bs_sub(void*, sz); void k_bs_sub_write(void*, sz, bool);
bool k_bs_sub_c(void const*, sz); bool k_bs_test(void const*, sz); void k_bs_from_sv(void*, char const*, sz, sz, sz);
u64 k_bb_sizeof(); void k_bb_new(void*, unsigned long long); bool k_bb_peek(void const*, sz);
bool k_bb_sub_c(void const*, sz); bool k_bb_sub(void*, sz); bool k_bb_utest(void const*, sz); void k_bb_uset(void*, sz, bool); void k_bb_ureset(void*, sz); void k_bb_uflip(void*, sz);
#define BITP(W, T) T k_setbit_##W(T, T); T k_setbitv_##W(T, T, bool); T k_resetbit_##W(T, T); T k_flipbit_##W(T, T); bool k_testbit_##W(T, T);
BITP(8, uint8_t) BITP(16, uint16_t) BITP(32, uint32_t) BITP(64, uint64_t)
int8_t k_divsat_i8(int8_t, int8_t); int32_t k_divsat_i32(int32_t, int32_t); int64_t k_divsat_i64(int64_t, int64_t); uint16_t k_divsat_u16(uint16_t, uint16_t); uint32_t k_divsat_u32(uint32_t, uint32_t);
unsigned k_day(unsigned); unsigned k_month(unsigned);
u64 k_ss_sizeof(); void k_ss_range(void*, int const*, int const*); u64 k_ss_size(void const*);
int k_left_stride(sz); int k_right_stride(sz); int k_stride_stride(int const*, sz);
void* k_memmove(void*, void const*, sz); char const* k_strchr_c(char const*, int); char* k_strchr(char*, int); char* k_strcpy(char*, char const*); char* k_strncpy(char*, char const*, sz);
wchar_t* k_wcscpy(wchar_t*, wchar_t const*); wchar_t* k_wcsncpy(wchar_t*, wchar_t const*, sz);
}
extern "C" __attribute__((noinline)) void* d_sym_block(u64 n)
{
    unsigned char* p = (unsigned char*)vf_alloc(n);
    for (u64 i = 0; i < n; i++) p[i] = vf_nd_u8();
    return p;
}

// =====================================================================================================================
// bitset<NBITS>: any content (constructed from a symbolic word), position unconstrained
// =====================================================================================================================
static void* mkbs() { void* p = d_sym_block(k_bs_sizeof()); k_bs_new(p, vf_nd_u64()); c05_watch0(p, k_bs_sizeof()); return p; }
static void* mkbb() { void* p = d_sym_block(k_bb_sizeof()); k_bb_new(p, vf_nd_u64()); c05_watch0(p, k_bb_sizeof()); return p; }
// the bit the valid call must have touched / returned, read back through a call that is itself inside its precondition
#define POSQ(NAME, MK, SITE, PEEK, CALL, CHECK)                                                                        \
    Q NAME()                                                                                                           \
    {                                                                                                                  \
        void* p = MK(); sz pos = vf_nd_u64(); bool v = vf_nd_u8() & 1; (void)v;                                        \
        bool before = pos < NBITS ? PEEK(p, pos) : false; (void)before;                                                \
        C05_CLAUSE(0, SITE, !(pos < NBITS));                                                                           \
        c05_arm(); CALL; c05_done();                                                                                   \
        CHECK;                                                                                                         \
    }
POSQ(q_bs_set, mkbs, SITE_bitset_3, k_bs_peek, k_bs_set(p, pos, v), vf_assert(k_bs_peek(p, pos) == v, "set(pos, v) sets bit pos to v"))
POSQ(q_bs_reset, mkbs, SITE_bitset_4, k_bs_peek, k_bs_reset(p, pos), vf_assert(!k_bs_peek(p, pos), "reset(pos) clears bit pos"))
POSQ(q_bs_flip, mkbs, SITE_bitset_5, k_bs_peek, k_bs_flip(p, pos), vf_assert(k_bs_peek(p, pos) == !before, "flip(pos) toggles bit pos"))
POSQ(q_bs_sub, mkbs, SITE_bitset_6, k_bs_peek, bool r = k_bs_sub(p, pos), vf_assert(r == before, "operator[](pos) reads bit pos"))
POSQ(q_bs_sub_write, mkbs, SITE_bitset_6, k_bs_peek, k_bs_sub_write(p, pos, v), vf_assert(k_bs_peek(p, pos) == v, "operator[](pos) = v writes bit pos"))
POSQ(q_bs_sub_c, mkbs, SITE_bitset_7, k_bs_peek, bool r = k_bs_sub_c(p, pos), vf_assert(r == before, "operator[](pos) const reads bit pos"))
POSQ(q_bs_test, mkbs, SITE_bitset_8, k_bs_peek, bool r = k_bs_test(p, pos), vf_assert(r == before, "test(pos) reads bit pos"))
POSQ(q_bb_sub_c, mkbb, SITE_basic_bitset_1, k_bb_peek, bool r = k_bb_sub_c(p, pos), vf_assert(r == before, "basic_bitset operator[](pos) const reads bit pos"))
POSQ(q_bb_sub, mkbb, SITE_basic_bitset_2, k_bb_peek, bool r = k_bb_sub(p, pos), vf_assert(r == before, "basic_bitset operator[](pos) reads bit pos"))
POSQ(q_bb_utest, mkbb, SITE_basic_bitset_3, k_bb_peek, bool r = k_bb_utest(p, pos), vf_assert(r == before, "unchecked_test(pos) reads bit pos"))
POSQ(q_bb_uset, mkbb, SITE_basic_bitset_4, k_bb_peek, k_bb_uset(p, pos, v), vf_assert(k_bb_peek(p, pos) == v, "unchecked_set(pos, v) sets bit pos to v"))
POSQ(q_bb_ureset, mkbb, SITE_basic_bitset_5, k_bb_peek, k_bb_ureset(p, pos), vf_assert(!k_bb_peek(p, pos), "unchecked_reset(pos) clears bit pos"))
POSQ(q_bb_uflip, mkbb, SITE_basic_bitset_6, k_bb_peek, k_bb_uflip(p, pos), vf_assert(k_bb_peek(p, pos) == !before, "unchecked_flip(pos) toggles bit pos"))

// bitset(string_view, pos, n): since /repo commit 17154eb the constructor follows std::bitset (only the first size() characters of the
// effective string are used) and no longer has a length precondition (the former `len <= size()` site is gone). What remains is
// `len >= 0`, an unsigned comparison that can never fire: the call must stay silent for every pos <= str.size() and every n.
// pos <= str.size() is assumed (std::bitset throws out_of_range there; tetl documents nothing for it).
Q q_bs_from_sv()
{
    char* s = (char*)d_sym_block(SLEN); sz pos = vf_nd_u64(), n = vf_nd_u64();
    vf_assume(pos <= SLEN);
    void* p = d_sym_block(k_bs_sizeof());
    c05_watch1(s, SLEN);
    C05_ALSO(SITE_bitset_1);
    c05_arm(); k_bs_from_sv(p, s, SLEN, pos, n); c05_done();
}

// =====================================================================================================================
// bit utilities: pos must be a valid bit index of the word type (pos < digits); word and pos any value of the type
// =====================================================================================================================
// Known finding C05_bit_pos_cast_to_int: the checks read static_cast<int>(pos) < digits; for 32/64-bit words a pos whose
// int conversion is negative (or, for 64 bits, small after truncation) passes although pos >= digits.
#define BITQ(W, T, ND, KNOWN)                                                                                          \
    Q q_setbit_##W()                                                                                                   \
    {                                                                                                                  \
        T w = (T)ND(), pos = (T)ND(); KNOWN;                                                                           \
        C05_CLAUSE(0, SITE_set_bit_1, !(pos < W));                                                                     \
        c05_arm(); T r = k_setbit_##W(w, pos); c05_done();                                                             \
        vf_assert(r == (T)(w | (T)((T)1 << pos)), "set_bit(word,pos)");                                                \
    }                                                                                                                  \
    Q q_setbitv_##W()                                                                                                  \
    {                                                                                                                  \
        T w = (T)ND(), pos = (T)ND(); bool v = vf_nd_u8() & 1; KNOWN;                                                  \
        C05_CLAUSE(0, SITE_set_bit_2, !(pos < W));                                                                     \
        c05_arm(); T r = k_setbitv_##W(w, pos, v); c05_done();                                                         \
        vf_assert(r == (T)((w & (T) ~((T)1 << pos)) | (T)((T)v << pos)), "set_bit(word,pos,value)");                   \
    }                                                                                                                  \
    Q q_resetbit_##W()                                                                                                 \
    {                                                                                                                  \
        T w = (T)ND(), pos = (T)ND(); KNOWN;                                                                           \
        C05_CLAUSE(0, SITE_reset_bit_1, !(pos < W));                                                                   \
        c05_arm(); T r = k_resetbit_##W(w, pos); c05_done();                                                           \
        vf_assert(r == (T)(w & (T) ~((T)1 << pos)), "reset_bit(word,pos)");                                            \
    }                                                                                                                  \
    Q q_flipbit_##W()                                                                                                  \
    {                                                                                                                  \
        T w = (T)ND(), pos = (T)ND(); KNOWN;                                                                           \
        C05_CLAUSE(0, SITE_flip_bit_1, !(pos < W));                                                                    \
        c05_arm(); T r = k_flipbit_##W(w, pos); c05_done();                                                            \
        vf_assert(r == (T)(w ^ (T)((T)1 << pos)), "flip_bit(word,pos)");                                               \
    }                                                                                                                  \
    Q q_testbit_##W()                                                                                                  \
    {                                                                                                                  \
        T w = (T)ND(), pos = (T)ND(); KNOWN;                                                                           \
        C05_CLAUSE(0, SITE_test_bit_1, !(pos < W));                                                                    \
        c05_arm(); bool r = k_testbit_##W(w, pos); c05_done();                                                         \
        vf_assert(r == (((w >> pos) & 1) != 0), "test_bit(word,pos)");                                                 \
    }
BITQ(8, uint8_t, vf_nd_u8, (void)0)
BITQ(16, uint16_t, vf_nd_u16, (void)0)
BITQ(32, uint32_t, vf_nd_u32, VF_KNOWN(C05_bit_pos_cast_to_int, pos >= 32 && (int)pos < 32))
BITQ(64, uint64_t, vf_nd_u64, VF_KNOWN(C05_bit_pos_cast_to_int, pos >= 64 && (int)pos < 64))

// =====================================================================================================================
// div_sat: y != 0
// =====================================================================================================================
#define DIVQ(NAME, T, WT_, ND, KFN, MINV, MAXV)                                                                        \
    Q NAME()                                                                                                           \
    {                                                                                                                  \
        T x = (T)ND(), y = (T)ND();                                                                                    \
        C05_CLAUSE(0, SITE_div_sat_1, y == 0);                                                                         \
        c05_arm(); T r = KFN(x, y); c05_done();                                                                        \
        if (sizeof(T) == 1) { WT_ q = (WT_)x / (WT_)y; vf_assert((WT_)r == (q > (WT_)MAXV ? (WT_)MAXV : q), "div_sat(x,y) == clamp(x / y)"); } \
    }
DIVQ(q_divsat_i8, int8_t, int, vf_nd_u8, k_divsat_i8, -128, 127)
DIVQ(q_divsat_i32, int32_t, long long, vf_nd_u32, k_divsat_i32, INT32_MIN, INT32_MAX)
DIVQ(q_divsat_u16, uint16_t, int, vf_nd_u16, k_divsat_u16, 0, 65535)
DIVQ(q_divsat_u32, uint32_t, long long, vf_nd_u32, k_divsat_u32, 0, UINT32_MAX)
Q q_divsat_i64()
{
    int64_t x = (int64_t)vf_nd_u64(), y = (int64_t)vf_nd_u64();
    C05_CLAUSE(0, SITE_div_sat_1, y == 0);
    c05_arm(); int64_t r = k_divsat_i64(x, y); c05_done();
    (void)r; // the quotient itself is C14's subject (two 64-bit dividers do not finish on SAT)
}

// =====================================================================================================================
// chrono::day(unsigned) / month(unsigned): the checks require the value to be < 255
// =====================================================================================================================
Q q_day()
{
    unsigned d = vf_nd_u32();
    C05_CLAUSE(0, SITE_day_1, !(d < 255));
    c05_arm(); unsigned r = k_day(d); c05_done();
    vf_assert(r == d, "unsigned(day(d)) == d");
}
Q q_month()
{
    unsigned m = vf_nd_u32();
    C05_CLAUSE(0, SITE_month_1, !(m < 255));
    c05_arm(); unsigned r = k_month(m); c05_done();
    vf_assert(r == m, "unsigned(month(m)) == m");
}

// =====================================================================================================================
// static_set<int, SETCAP>(first, last) over pointers into one block of SRCN ints: last - first >= 0 and <= max_size()
// =====================================================================================================================
Q q_ss_range()
{
    int* blk = (int*)d_sym_block(SRCN * sizeof(int)); sz a = vf_nd_u8(), b = vf_nd_u8();
    vf_assume(a <= SRCN && b <= SRCN); // both iterators point into (or one past) the same array
    void* p = d_sym_block(k_ss_sizeof());
    c05_watch1(blk, SRCN * sizeof(int));
    C05_CLAUSE(0, SITE_static_set_1, b < a);
    C05_CLAUSE(1, SITE_static_set_2, b >= a && b - a > SETCAP);
    c05_arm(); k_ss_range(p, blk + a, blk + b); c05_done();
    vf_assert(k_ss_size(p) <= b - a, "set built from a valid range holds at most last - first keys");
}

// =====================================================================================================================
// layout_left / layout_right / layout_stride mapping<extents<int,2,3>>::stride(r): r < rank()
// =====================================================================================================================
Q q_left_stride()
{
    sz r = vf_nd_u64();
    C05_CLAUSE(0, SITE_layout_left_1, !(r < 2));
    c05_arm(); int s = k_left_stride(r); c05_done();
    vf_assert(s == (r == 0 ? 1 : 2), "layout_left stride");
}
Q q_right_stride()
{
    sz r = vf_nd_u64();
    C05_CLAUSE(0, SITE_layout_right_1, !(r < 2));
    c05_arm(); int s = k_right_stride(r); c05_done();
    vf_assert(s == (r == 0 ? 3 : 1), "layout_right stride");
}
Q q_stride_stride()
{
    sz r = vf_nd_u64(); int* st = (int*)d_sym_block(8);
    c05_watch1(st, 8);
    C05_CLAUSE(0, SITE_layout_stride_1, !(r < 2));
    c05_arm(); int s = k_stride_stride(st, r); c05_done();
    vf_assert(s == st[r], "layout_stride stride(r) is the r-th given stride");
}

// =====================================================================================================================
// cstring / cwchar: null pointer arguments (each pointer is symbolically null or a valid exact-size block)
// =====================================================================================================================
static char* cstr(sz n) { char* p = (char*)d_sym_block(n + 1); for (sz i = 0; i < n; i++) vf_assume(p[i] != 0); p[n] = 0; return p; }
static wchar_t* wstr(sz n) { wchar_t* p = (wchar_t*)d_sym_block((n + 1) * sizeof(wchar_t)); for (sz i = 0; i < n; i++) vf_assume(p[i] != 0); p[n] = 0; return p; }
Q q_memmove()
{
    bool dn = vf_nd_u8() & 1, sn = vf_nd_u8() & 1; sz cnt = vf_nd_u64();
    unsigned char* d = dn ? nullptr : (unsigned char*)d_sym_block(SLEN); unsigned char* s = sn ? nullptr : (unsigned char*)d_sym_block(SLEN);
    if (!dn && !sn) vf_assume(cnt <= SLEN); // a valid call copies inside both blocks
    if (!dn) c05_watch0(d, SLEN);
    C05_CLAUSE(0, SITE_memmove_1, dn);
    C05_CLAUSE(1, SITE_memmove_2, sn);
    c05_arm(); void* r = k_memmove(d, s, cnt); c05_done();
    vf_assert(r == d, "memmove returns dest");
    for (sz i = 0; i < SLEN; i++) if (i < cnt) vf_assert(d[i] == s[i], "memmove copies count bytes");
}
Q q_strchr_c()
{
    bool n = vf_nd_u8() & 1; int ch = (int)vf_nd_u32(); char* s = n ? nullptr : cstr(SLEN);
    C05_CLAUSE(0, SITE_strchr_1, n);
    c05_arm(); char const* r = k_strchr_c(s, ch); c05_done();
    vf_assert(r == nullptr || (r >= s && r <= s + SLEN && *r == (char)ch), "strchr result points at ch inside the string");
}
Q q_strchr()
{
    bool n = vf_nd_u8() & 1; int ch = (int)vf_nd_u32(); char* s = n ? nullptr : cstr(SLEN);
    C05_CLAUSE(0, SITE_strchr_2, n);
    c05_arm(); char* r = k_strchr(s, ch); c05_done();
    vf_assert(r == nullptr || (r >= s && r <= s + SLEN && *r == (char)ch), "strchr result points at ch inside the string");
}
Q q_strcpy()
{
    bool dn = vf_nd_u8() & 1, sn = vf_nd_u8() & 1;
    char* d = dn ? nullptr : (char*)d_sym_block(SLEN + 1); char* s = sn ? nullptr : cstr(SLEN);
    if (!dn) c05_watch0(d, SLEN + 1);
    C05_CLAUSE(0, SITE_strcpy_1, dn);
    C05_CLAUSE(1, SITE_strcpy_2, sn);
    c05_arm(); char* r = k_strcpy(d, s); c05_done();
    vf_assert(r == d, "strcpy returns dest");
    for (sz i = 0; i <= SLEN; i++) vf_assert(d[i] == s[i], "strcpy copies the string and its terminator");
}
Q q_strncpy()
{
    bool dn = vf_nd_u8() & 1, sn = vf_nd_u8() & 1; sz cnt = vf_nd_u64();
    char* d = dn ? nullptr : (char*)d_sym_block(SLEN + 2); char* s = sn ? nullptr : cstr(SLEN);
    if (!dn && !sn) vf_assume(cnt <= SLEN + 2);
    if (!dn) c05_watch0(d, SLEN + 2);
    C05_CLAUSE(0, SITE_strncpy_1, dn);
    C05_CLAUSE(1, SITE_strncpy_2, sn);
    c05_arm(); char* r = k_strncpy(d, s, cnt); c05_done();
    vf_assert(r == d, "strncpy returns dest");
}
Q q_wcscpy()
{
    bool dn = vf_nd_u8() & 1, sn = vf_nd_u8() & 1;
    wchar_t* d = dn ? nullptr : (wchar_t*)d_sym_block((SLEN + 1) * sizeof(wchar_t)); wchar_t* s = sn ? nullptr : wstr(SLEN);
    if (!dn) c05_watch0(d, (SLEN + 1) * sizeof(wchar_t));
    C05_CLAUSE(0, SITE_wcscpy_1, dn);
    C05_CLAUSE(1, SITE_wcscpy_2, sn);
    c05_arm(); wchar_t* r = k_wcscpy(d, s); c05_done();
    vf_assert(r == d, "wcscpy returns dest");
}
Q q_wcsncpy()
{
    bool dn = vf_nd_u8() & 1, sn = vf_nd_u8() & 1; sz cnt = vf_nd_u64();
    wchar_t* d = dn ? nullptr : (wchar_t*)d_sym_block((SLEN + 2) * sizeof(wchar_t)); wchar_t* s = sn ? nullptr : wstr(SLEN);
    if (!dn && !sn) vf_assume(cnt <= SLEN + 2);
    if (!dn) c05_watch0(d, (SLEN + 2) * sizeof(wchar_t));
    C05_CLAUSE(0, SITE_wcsncpy_1, dn);
    C05_CLAUSE(1, SITE_wcsncpy_2, sn);
    c05_arm(); wchar_t* r = k_wcsncpy(d, s, cnt); c05_done();
    vf_assert(r == d, "wcsncpy returns dest");
}
