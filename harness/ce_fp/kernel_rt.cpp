// C13 family ce_fp, run-time TU: the same calls as kernel.cpp without the macro. See body.h.
#include <stdint.h>
#include <stddef.h>
#define KPRE kr_
#include "body.h"
