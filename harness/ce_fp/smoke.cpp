// C13 side check (DESIGN.md C13 "trusted": not the deciding step): the kernels of this family reach the constant-evaluation branch
// by `#define __builtin_is_constant_evaluated() true`. This program checks that assumption end to end on a boundary-value table:
// every row is evaluated (a) by the COMPILER in a constexpr table (real constant evaluation of the unmodified headers) and (b) at run
// time through kc_* of kernel.cpp (macro-forced branch, volatile-laundered argument). (a) and (b) must agree bit for bit; rows on
// which constant evaluation is undefined (the *_huge / rint_cast_range findings: they would not compile) are skipped by `dom`.
// Built by spec.validate() with g++ and clang++-16 at -O0 and -O2; exit status 0 = all rows agree.
#include <etl/array.hpp>
#include <etl/cmath.hpp>
#include <stdint.h>
#include <stdio.h>
#include <string.h>
#ifndef FT
#define FT float
#endif
#ifndef DBL
#define DBL 0
#endif
extern "C" {
FT kc_floor(FT); FT kc_trunc(FT); FT kc_round(FT); FT kc_rint(FT); long kc_lrint(FT); long long kc_llrint(FT); FT kc_copysign(FT, FT); bool kc_signbit(FT);
FT kc_fma(FT, FT, FT); FT kc_ceil(FT); FT kc_fabs(FT); FT kc_fmin(FT, FT); FT kc_fmax(FT, FT); FT kc_fdim(FT, FT); bool kc_isnan(FT); bool kc_isinf(FT); bool kc_isfinite(FT);
}
#if DBL
using UT = uint64_t;
constexpr FT EPSV = 0x1p-52; constexpr FT TINY = 0x1p-1074; constexpr FT MINN = 0x1p-1022; constexpr FT BIGI = 0x1p52; constexpr FT MAXV = 0x1.fffffffffffffp1023;
#else
using UT = uint32_t;
constexpr FT EPSV = 0x1p-23F; constexpr FT TINY = 0x1p-149F; constexpr FT MINN = 0x1p-126F; constexpr FT BIGI = 0x1p23F; constexpr FT MAXV = 0x1.fffffep127F;
#endif
constexpr FT INFV = __builtin_huge_val();
constexpr FT NANV = __builtin_nan("");
constexpr FT P63 = 0x1p63;
// boundary table: zeros, denormals, epsilon neighbourhood, halves, integers +-1ulp, 2^(digits-1) neighbourhood, 2^63 neighbourhood, limits, inf, NaN
constexpr FT POS[] = {0, TINY, TINY * 3, MINN, EPSV / 2, EPSV, EPSV * 2, FT(0.25), FT(0.5) - EPSV / 4, FT(0.5), FT(0.5) + EPSV / 2, FT(0.75), FT(1) - EPSV / 2, 1, FT(1) + EPSV,
                      FT(1.5), FT(2) - EPSV, 2, FT(2.5), FT(3.5), FT(4.5), FT(1000.5), FT(65535.5), BIGI / 2 - FT(0.5), BIGI / 2 + FT(0.5), BIGI - FT(0.5), BIGI - 1, BIGI, BIGI + 1, BIGI * 2,
                      FT(2147483647.0), FT(2147483648.0), FT(4294967296.0), P63 / 2, P63 - P63 * EPSV, P63, P63 * 2, FT(1e30), MAXV, INFV, NANV};
constexpr int NP = sizeof(POS) / sizeof(POS[0]);
constexpr int NV = 2 * NP;
constexpr FT val(int i) { return i < NP ? POS[i] : -POS[i - NP]; }
constexpr bool fin(FT x) { return x == x && x != INFV && x != -INFV; }
constexpr bool in_ll(FT x) { return x >= -P63 && x < P63; }                    // static_cast<long long>(x) defined
// domain on which the constant-evaluation branch can be evaluated by THIS compiler (everything else is a recorded finding - the row
// would not compile - or outside the documented domain)
#if defined(__clang__)
constexpr bool NAN_ARITH_OK = false;   // clang: arithmetic with a NaN result is not a constant expression (C13_fabs_nan_clang, C13_fdim_nan_clang, C13_fma_nan_clang)
#else
constexpr bool NAN_ARITH_OK = true;
#endif
constexpr bool dom_gcem(FT x) { return !fin(x) || in_ll(x); }                  // floor/trunc/ceil: cast of x (C13_*_huge)
constexpr bool dom_round(FT x) { return !fin(x) || (in_ll(x) && in_ll(-x)); }  // round: cast of |x|
constexpr bool dom_cast(FT x) { return in_ll(x); }                             // rint/lrint/llrint fallback: cast of x (NaN, inf undefined: C13_rint_cast_range)
constexpr bool dom_all(FT) { return true; }
constexpr bool dom_fabs(FT x) { return NAN_ARITH_OK || x == x; }
constexpr bool dom2_all(FT, FT) { return true; }
constexpr FT HALFMAX = MAXV / 2;
constexpr bool dom2_fdim(FT x, FT y)   // x - y: no NaN operand (clang), no inf - inf, no overflow (gcc; range error)
{
    if (x != x || y != y) { return NAN_ARITH_OK; }
    if (!fin(x) && !fin(y)) { return (x > 0) != (y > 0); }
    return !fin(x) || !fin(y) || (x <= HALFMAX && x >= -HALFMAX && y <= HALFMAX && y >= -HALFMAX);
}
constexpr bool small(FT x) { return fin(x) && x <= FT(0x1p40) && x >= FT(-0x1p40); }
constexpr bool dom3_fma(FT x, FT y, FT z) { return small(x) && small(y) && (z == z ? (small(z) || !fin(z)) : NAN_ARITH_OK); }
template <typename R, typename F, typename D> constexpr auto table1(F f, D d) { etl::array<R, NV> t{}; for (int i = 0; i < NV; ++i) { t[i] = d(val(i)) ? f(val(i)) : R{}; } return t; }
template <typename R, typename F, typename D> constexpr auto table2(F f, D d) { etl::array<R, NV * NV> t{}; for (int i = 0; i < NV; ++i) { for (int j = 0; j < NV; ++j) { t[i * NV + j] = d(val(i), val(j)) ? f(val(i), val(j)) : R{}; } } return t; }
static UT bits(FT f) { UT u; memcpy(&u, &f, sizeof u); return u; }
static bool same(FT a, FT b) { return (a != a && b != b) || bits(a) == bits(b); }
static bool same(long a, long b) { return a == b; }
static bool same(long long a, long long b) { return a == b; }
static bool same(bool a, bool b) { return a == b; }
static int bad = 0, rows = 0;
template <typename R, typename T, typename D> static void check1(char const* name, T const& tab, R (*k)(FT), D d)
{
    for (int i = 0; i < NV; ++i) {
        volatile FT x = val(i);
        if (!d(x)) { continue; }
        ++rows;
        R r = k(x);
        if (!same(R(tab[i]), r)) { ++bad; printf("MISMATCH %s(%a): constexpr %a, forced branch %a\n", name, double(x), double(tab[i]), double(r)); }
    }
}
template <typename T, typename D> static void check2(char const* name, T const& tab, FT (*k)(FT, FT), D d)
{
    for (int i = 0; i < NV; ++i) {
        for (int j = 0; j < NV; ++j) {
            volatile FT x = val(i), y = val(j);
            if (!d(x, y)) { continue; }
            ++rows;
            FT r = k(x, y);
            if (!same(FT(tab[i * NV + j]), r)) { ++bad; printf("MISMATCH %s(%a, %a): constexpr %a, forced branch %a\n", name, double(x), double(y), double(tab[i * NV + j]), double(r)); }
        }
    }
}
#define T1(fn, R, dom) { static constexpr auto t = table1<R>([](FT v) { return etl::fn(v); }, dom); check1<R>(#fn, t, kc_##fn, dom); }
#define T2(fn, dom) { static constexpr auto t = table2<FT>([](FT a, FT b) { return etl::fn(a, b); }, dom); check2(#fn, t, kc_##fn, dom); }
int main()
{
    T1(floor, FT, dom_gcem) T1(trunc, FT, dom_gcem) T1(ceil, FT, dom_gcem) T1(round, FT, dom_round) T1(rint, FT, dom_cast) T1(lrint, long, dom_cast) T1(llrint, long long, dom_cast)
    T1(signbit, bool, dom_all) T1(fabs, FT, dom_fabs) T1(isnan, bool, dom_all) T1(isinf, bool, dom_all) T1(isfinite, bool, dom_all)
    T2(copysign, dom2_all) T2(fmin, dom2_all) T2(fmax, dom2_all) T2(fdim, dom2_fdim)
    {   // fma: x, y from a short list (inexact products), z over the table
        static constexpr FT A[] = {FT(1) + EPSV * 2048, FT(3), FT(1) / 3, -FT(1) - EPSV, FT(0x1p40), TINY, 0};
        constexpr int NA = sizeof(A) / sizeof(A[0]);
        static constexpr auto t = [] { etl::array<FT, NA * NA * NV> r{}; for (int i = 0; i < NA; ++i) for (int j = 0; j < NA; ++j) for (int k = 0; k < NV; ++k) r[(i * NA + j) * NV + k] = dom3_fma(A[i], A[j], val(k)) ? etl::fma(A[i], A[j], val(k)) : FT(0); return r; }();
        for (int i = 0; i < NA; ++i) for (int j = 0; j < NA; ++j) for (int k = 0; k < NV; ++k) {
            volatile FT x = A[i], y = A[j], z = val(k);
            if (!dom3_fma(x, y, z)) { continue; }
            ++rows;
            FT r = kc_fma(x, y, z);
            if (!same(t[(i * NA + j) * NV + k], r)) { ++bad; printf("MISMATCH fma(%a, %a, %a): constexpr %a, forced branch %a\n", double(x), double(y), double(z), double(t[(i * NA + j) * NV + k]), double(r)); }
        }
    }
    printf("ce_fp smoke: %d rows, %d mismatches\n", rows, bad);
    return bad != 0;
}
