// C13 driver (family ce_fp): for every bit pattern of every argument the constant-evaluation path (kc_*, kernel.cpp) and the
// run-time path (kr_*, kernel_rt.cpp) of the same <etl/cmath.hpp> function must return the same value: bit for bit, except that two
// NaN results count as equal (sign and payload of a NaN result are not exactly specified). Arguments are symbolic; nothing is
// enumerated or sampled. The libm functions used here only describe input regions of known findings, never the expected result.
// Never includes tetl.
#include <stdint.h>
#include <cmath>
#include "vf.h"
#ifndef DBL
#define DBL 0
#endif
#ifndef GCFG
#define GCFG 0
#endif
// CEQ=1: "constant evaluation cannot fail" query (UB build, kernel.cpp with strict FP semantics: every floating-point operation of the
// constant-evaluation path carries the obligations of LL_CEFP_* in engine/ll_prelude.h). CE_DOMAIN restricts such a query to the
// documented domain of the function (arguments with a range / domain error are outside it); functional queries are not restricted.
#ifndef CEQ
#define CEQ 0
#endif
#if CEQ
#define CE_DOMAIN(c) vf_assume(c)
#else
#define CE_DOMAIN(c) ((void)0)
#endif
#if DBL
#ifndef FT
#define FT double
#endif
typedef uint64_t UT;
#define SIGNBIT 0x8000000000000000ull
#define EPS 0x1p-52
static FT nd() { return vf_nd_double(); }
#else
#ifndef FT
#define FT float
#endif
typedef uint32_t UT;
#define SIGNBIT 0x80000000u
#define EPS 0x1p-23f
static FT nd() { return vf_nd_float(); }
#endif
#define NOINL __attribute__((noinline))
#define PAIR1(R, n, ...) R kc_##n(__VA_ARGS__); R kr_##n(__VA_ARGS__);
extern "C" {
PAIR1(FT, floor, FT) PAIR1(FT, trunc, FT) PAIR1(FT, round, FT) PAIR1(FT, rint, FT) PAIR1(long, lrint, FT) PAIR1(long long, llrint, FT)
PAIR1(FT, copysign, FT, FT) PAIR1(bool, signbit, FT) PAIR1(FT, fma, FT, FT, FT)
PAIR1(double, floor_i, int) PAIR1(double, trunc_i, int) PAIR1(double, round_i, int) PAIR1(double, rint_i, int) PAIR1(long, lrint_i, int) PAIR1(long long, llrint_i, int)
PAIR1(double, floor_l, long long) PAIR1(double, trunc_l, long long) PAIR1(double, round_l, long long) PAIR1(double, rint_l, long long)
PAIR1(FT, ceil, FT) PAIR1(FT, fabs, FT) PAIR1(FT, fmin, FT, FT) PAIR1(FT, fmax, FT, FT) PAIR1(FT, fdim, FT, FT)
PAIR1(bool, isnan, FT) PAIR1(bool, isinf, FT) PAIR1(bool, isfinite, FT) PAIR1(double, ceil_i, int) PAIR1(double, ceil_l, long long)
}
static UT bits(FT f) { union { FT f; UT u; } p; p.f = f; return p.u; }
static uint64_t dbits(double f) { union { double f; uint64_t u; } p; p.f = f; return p.u; }
static bool isnan_(FT x) { return x != x; }
static bool sign_(FT x) { return (bits(x) & SIGNBIT) != 0; }
static FT mag(FT x) { union { FT f; UT u; } p; p.f = x; p.u &= ~(UT)SIGNBIT; return p.f; }
static bool isinf_(FT x) { return mag(x) == (FT)INFINITY; }
static bool isfin(FT x) { return !isnan_(x) && !isinf_(x); }
static bool same(FT a, FT b) { return (isnan_(a) && isnan_(b)) || bits(a) == bits(b); }
static bool samed(double a, double b) { return (a != a && b != b) || dbits(a) == dbits(b); }
// input classes named by the findings
static bool tiny(FT x) { return mag(x) > 0 && mag(x) < (FT)EPS; }                                       // 0 < |x| < epsilon
static bool cast_ub(FT x) { return !(x >= (FT)-0x1p63 && x < (FT)0x1p63); }                             // static_cast<long long>(x) undefined (NaN, inf, out of range)
static bool abs_cast_ub(FT x) { return !(mag(x) < (FT)0x1p63); }                                        // static_cast<long long>(|x|) undefined
static bool neg_below_one(FT x) { return sign_(x) && mag(x) < 1 && mag(x) >= (FT)EPS; }                 // -1 < x <= -epsilon
static NOINL FT m_trunc(FT x) { return std::trunc(x); }
static NOINL FT m_rint(FT x) { return std::rint(x); }
static NOINL FT m_fma(FT x, FT y, FT z) { return std::fma(x, y, z); }
static NOINL FT m_muladd(FT x, FT y, FT z) { FT p = x * y; return p + z; }
static NOINL FT m_mul(FT x, FT y) { return x * y; }
static NOINL FT m_sub(FT x, FT y) { return x - y; }

// ================================================================ functions that branch on is_constant_evaluated()
Q q_floor()
{
    FT x = nd();
    VF_KNOWN(C13_floor_tiny, tiny(x));
    VF_KNOWN(C13_floor_huge, isfin(x) && cast_ub(x));
    FT c = kc_floor(x);
    if (isfin(x) && mag(x) > 1 && !same(c, x)) vf_witness("floor_fraction");
    FT r = kr_floor(x);
    vf_assert(same(c, r), "floor(x): constant-evaluation path == run-time path");
}
Q q_trunc()
{
    FT x = nd();
    VF_KNOWN(C13_trunc_tiny, tiny(x));
    VF_KNOWN(C13_trunc_huge, isfin(x) && cast_ub(x));
    VF_KNOWN(C13_trunc_negzero, neg_below_one(x));
    FT c = kc_trunc(x);
    if (isfin(x) && mag(x) > 1 && !same(c, x)) vf_witness("trunc_fraction");
    FT r = kr_trunc(x);
    vf_assert(same(c, r), "trunc(x): constant-evaluation path == run-time path");
}
Q q_round()
{
    FT x = nd();
    VF_KNOWN(C13_round_tiny, tiny(x));
    VF_KNOWN(C13_round_huge, isfin(x) && abs_cast_ub(x));
    FT c = kc_round(x);
    if (isfin(x) && mag(x) > 1 && !same(c, x)) vf_witness("round_fraction");
    FT r = kr_round(x);
    vf_assert(same(c, r), "round(x): constant-evaluation path == run-time path");
}
Q q_rint()
{
    FT x = nd();
    VF_KNOWN(C13_rint_cast_range, cast_ub(x));
    VF_KNOWN(C13_rint_truncates, !cast_ub(x) && (!same(m_trunc(x), m_rint(x)) || (sign_(x) && mag(x) < 1)));
    FT c = kc_rint(x);
    if (isfin(x) && mag(x) > 1 && !same(c, x)) vf_witness("rint_fraction");
    FT r = kr_rint(x);
    vf_assert(same(c, r), "rint(x): constant-evaluation path == run-time path (default rounding mode)");
}
// lrint / llrint: ISO C leaves the result unspecified when the rounded value is not representable -> outside the documented domain
Q q_lrint()
{
    FT x = nd();
    vf_assume(!cast_ub(x));
    VF_KNOWN(C13_lrint_truncates, !same(m_trunc(x), m_rint(x)));
    long c = kc_lrint(x);
    if (mag(x) > 1 && (FT)c != x) vf_witness("lrint_fraction");
    long r = kr_lrint(x);
    vf_assert(c == r, "lrint(x): constant-evaluation path == run-time path (default rounding mode)");
}
Q q_llrint()
{
    FT x = nd();
    vf_assume(!cast_ub(x));
    VF_KNOWN(C13_lrint_truncates, !same(m_trunc(x), m_rint(x)));
    long long c = kc_llrint(x);
    if (mag(x) > 1 && (FT)c != x) vf_witness("llrint_fraction");
    long long r = kr_llrint(x);
    vf_assert(c == r, "llrint(x): constant-evaluation path == run-time path (default rounding mode)");
}
Q q_copysign()
{
    FT x = nd(), y = nd();
    VF_KNOWN(C13_copysign_zero_nan, !isnan_(x) && (x == 0 || y == 0 || isnan_(y)) && sign_(x) != sign_(y));
    FT c = kc_copysign(x, y);
    if (!isnan_(x) && !same(c, x)) vf_witness("copysign_flips");
    FT r = kr_copysign(x, y);
    vf_assert(same(c, r), "copysign(x, y): constant-evaluation path == run-time path");
}
Q q_signbit()
{
    FT x = nd();
    VF_KNOWN(C13_signbit_gcc_poszero_negnan, GCFG && (bits(x) == 0 || (isnan_(x) && sign_(x))));
    bool c = kc_signbit(x);
    if (c) vf_witness("signbit_true");
    bool r = kr_signbit(x);
    vf_assert(c == r, "signbit(x): constant-evaluation path == run-time path");
}
Q q_fma()
{
    FT x = nd(), y = nd(), z = nd();
    VF_KNOWN(C13_fma_unfused, !same(m_fma(x, y, z), m_muladd(x, y, z)));
    VF_KNOWN(C13_fma_nan_clang, CEQ && (isnan_(x) || isnan_(y) || isnan_(z)));
    // domain / range errors of fma (ISO C 7.12.13.1, F.10.10.1): 0 * inf, inf * y + (-inf), and an overflowing result
    CE_DOMAIN(isnan_(x) || isnan_(y) || isnan_(z) || (!isnan_(m_mul(x, y)) && !isnan_(m_muladd(x, y, z))));
    CE_DOMAIN(!(isfin(x) && isfin(y) && isinf_(m_mul(x, y))) && !(isfin(m_mul(x, y)) && isfin(z) && isinf_(m_muladd(x, y, z))));
    FT c = kc_fma(x, y, z);   // no inner witness: this query is decided on the SMT route (identical float terms are merged there)
    FT r = kr_fma(x, y, z);
    vf_assert(same(c, r), "fma(x, y, z): constant-evaluation path == run-time path");
}
// integral overloads: every int / every long long (independent of FT); the argument is converted to double first
#define INT_OVERLOAD(fn, R, EQ)                                                                                        \
    Q q_##fn##_i()                                                                                                     \
    {                                                                                                                  \
        int v = (int)vf_nd_u32();                                                                                      \
        R c = kc_##fn##_i(v);                                                                                          \
        if (v < -1000000) vf_witness("int_negative");                                                                  \
        R r = kr_##fn##_i(v);                                                                                          \
        vf_assert(EQ(c, r), #fn "(int): constant-evaluation path == run-time path");                                   \
    }
#define EQI(a, b) ((a) == (b))
INT_OVERLOAD(floor, double, samed) INT_OVERLOAD(trunc, double, samed) INT_OVERLOAD(round, double, samed) INT_OVERLOAD(rint, double, samed)
INT_OVERLOAD(lrint, long, EQI) INT_OVERLOAD(llrint, long long, EQI) INT_OVERLOAD(ceil, double, samed)
// long long: double(v) is 2^63 exactly for v > 2^63 - 513, where the gcem / rint_fallback cast is undefined: the *_huge findings
// (round casts |x|: also v == -2^63)
#define LL_OVERLOAD(fn, ID, REGION)                                                                                    \
    Q q_##fn##_l()                                                                                                     \
    {                                                                                                                  \
        long long v = (long long)vf_nd_u64();                                                                          \
        bool top = (double)v >= 0x1p63, bottom = (double)v <= -0x1p63;                                                 \
        VF_KNOWN(ID, REGION);                                                                                          \
        double c = kc_##fn##_l(v);                                                                                     \
        if (v < -(1ll << 60) && !bottom) vf_witness("ll_negative");                                                    \
        double r = kr_##fn##_l(v);                                                                                     \
        vf_assert(samed(c, r), #fn "(long long): constant-evaluation path == run-time path");                          \
    }
LL_OVERLOAD(floor, C13_floor_huge, top) LL_OVERLOAD(trunc, C13_trunc_huge, top) LL_OVERLOAD(round, C13_round_huge, top || bottom)
LL_OVERLOAD(rint, C13_rint_cast_range, top) LL_OVERLOAD(ceil, C13_ceil_huge, top)

// ================================================================ single code path: same code at compile time and at run time; the UB build of
// these queries decides "constant evaluation succeeds for every argument" (UB in a constant expression = compile error)
Q q_ceil()
{
    FT x = nd();
    VF_KNOWN(C13_ceil_huge, isfin(x) && cast_ub(x));
    FT c = kc_ceil(x);
    if (isfin(x) && mag(x) > 1 && !same(c, x)) vf_witness("ceil_fraction");
    FT r = kr_ceil(x);
    vf_assert(same(c, r), "ceil(x): single path, both TUs agree");
}
Q q_fabs() { FT x = nd(); VF_KNOWN(C13_fabs_nan_clang, CEQ && isnan_(x)); FT c = kc_fabs(x); if (sign_(x) && !isnan_(x)) vf_witness("fabs_negative"); vf_assert(same(c, kr_fabs(x)), "fabs(x): single path, both TUs agree"); }
Q q_fmin() { FT x = nd(), y = nd(); FT c = kc_fmin(x, y); if (x < y) vf_witness("fmin_first"); vf_assert(same(c, kr_fmin(x, y)), "fmin(x, y): single path, both TUs agree"); }
Q q_fmax() { FT x = nd(), y = nd(); FT c = kc_fmax(x, y); if (x < y) vf_witness("fmax_second"); vf_assert(same(c, kr_fmax(x, y)), "fmax(x, y): single path, both TUs agree"); }
Q q_fdim()
{
    FT x = nd(), y = nd();
    VF_KNOWN(C13_fdim_nan_clang, CEQ && (isnan_(x) || isnan_(y)));
    VF_KNOWN(C13_fdim_inf_inf, CEQ && isinf_(x) && isinf_(y) && sign_(x) == sign_(y));
    CE_DOMAIN(!(isfin(x) && isfin(y) && isinf_(m_sub(x, y))));   // x - y overflows: range error (ISO C 7.12.12.1)
    FT c = kc_fdim(x, y);     if (x > y) vf_witness("fdim_positive");
    vf_assert(same(c, kr_fdim(x, y)), "fdim(x, y): single path, both TUs agree");
}
Q q_classify()
{
    FT x = nd();
    bool n = kc_isnan(x);
    if (n) vf_witness("classify_nan");
    vf_assert(n == kr_isnan(x), "isnan(x): both TUs agree");
    vf_assert(kc_isinf(x) == kr_isinf(x), "isinf(x): both TUs agree");
    vf_assert(kc_isfinite(x) == kr_isfinite(x), "isfinite(x): both TUs agree");
}
