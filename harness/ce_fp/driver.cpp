// C13 driver (family ce_fp): for every bit pattern of every argument the constant-evaluation path (kc_*, kernel.cpp) and the
// run-time path (kr_*, kernel_rt.cpp) of the same <etl/cmath.hpp> function must return the same value: bit for bit, except that two
// NaN results count as equal (sign and payload of a NaN result are not exactly specified). Arguments are symbolic; nothing is
// enumerated or sampled. The libm functions used here only describe input regions of known findings, never the expected result.
// Never includes tetl.
#include <stdint.h>
#include <cmath>
#include "vf.h"
#ifndef DBL
#define DBL 0
#endif
#ifndef GCFG
#define GCFG 0
#endif
#if DBL
#ifndef FT
#define FT double
#endif
typedef uint64_t UT;
#define SIGNBIT 0x8000000000000000ull
#define EPS 0x1p-52
static FT nd() { return vf_nd_double(); }
#else
#ifndef FT
#define FT float
#endif
typedef uint32_t UT;
#define SIGNBIT 0x80000000u
#define EPS 0x1p-23f
static FT nd() { return vf_nd_float(); }
#endif
#define NOINL __attribute__((noinline))
#define PAIR1(R, n, ...) R kc_##n(__VA_ARGS__); R kr_##n(__VA_ARGS__);
extern "C" {
PAIR1(FT, floor, FT) PAIR1(FT, trunc, FT) PAIR1(FT, round, FT) PAIR1(FT, rint, FT) PAIR1(long, lrint, FT) PAIR1(long long, llrint, FT)
PAIR1(FT, copysign, FT, FT) PAIR1(bool, signbit, FT) PAIR1(FT, fma, FT, FT, FT)
PAIR1(double, floor_i, int) PAIR1(double, trunc_i, int) PAIR1(double, round_i, int) PAIR1(double, rint_i, int) PAIR1(long, lrint_i, int) PAIR1(long long, llrint_i, int)
PAIR1(double, floor_l, long long) PAIR1(double, trunc_l, long long) PAIR1(double, round_l, long long) PAIR1(double, rint_l, long long)
PAIR1(FT, ceil, FT) PAIR1(FT, fabs, FT) PAIR1(FT, fmin, FT, FT) PAIR1(FT, fmax, FT, FT) PAIR1(FT, fdim, FT, FT)
PAIR1(bool, isnan, FT) PAIR1(bool, isinf, FT) PAIR1(bool, isfinite, FT) PAIR1(double, ceil_i, int) PAIR1(double, ceil_l, long long)
}
static UT bits(FT f) { union { FT f; UT u; } p; p.f = f; return p.u; }
static uint64_t dbits(double f) { union { double f; uint64_t u; } p; p.f = f; return p.u; }
static bool isnan_(FT x) { return x != x; }
static bool sign_(FT x) { return (bits(x) & SIGNBIT) != 0; }
static FT mag(FT x) { union { FT f; UT u; } p; p.f = x; p.u &= ~(UT)SIGNBIT; return p.f; }
static bool isinf_(FT x) { return mag(x) == (FT)INFINITY; }
static bool isfin(FT x) { return !isnan_(x) && !isinf_(x); }
static bool same(FT a, FT b) { return (isnan_(a) && isnan_(b)) || bits(a) == bits(b); }
static bool samed(double a, double b) { return (a != a && b != b) || dbits(a) == dbits(b); }
// input classes named by the findings
static bool tiny(FT x) { return mag(x) > 0 && mag(x) < (FT)EPS; }                                       // 0 < |x| < epsilon
static bool cast_ub(FT x) { return !(x >= (FT)-0x1p63 && x < (FT)0x1p63); }                             // static_cast<long long>(x) undefined (NaN, inf, out of range)
static bool abs_cast_ub(FT x) { return !(mag(x) < (FT)0x1p63); }                                        // static_cast<long long>(|x|) undefined
static bool neg_below_one(FT x) { return sign_(x) && mag(x) < 1 && mag(x) >= (FT)EPS; }                 // -1 < x <= -epsilon
static NOINL FT m_trunc(FT x) { return std::trunc(x); }
static NOINL FT m_rint(FT x) { return std::rint(x); }
static NOINL FT m_fma(FT x, FT y, FT z) { return std::fma(x, y, z); }
static NOINL FT m_muladd(FT x, FT y, FT z) { FT p = x * y; return p + z; }

// ================================================================ functions that branch on is_constant_evaluated()
Q q_floor()
{
    FT x = nd();
    VF_KNOWN(C13_floor_tiny, tiny(x));
    VF_KNOWN(C13_floor_huge, isfin(x) && cast_ub(x));
    FT c = kc_floor(x);
    if (isfin(x) && mag(x) > 1 && !same(c, x)) vf_witness("floor_fraction");
    FT r = kr_floor(x);
    vf_assert(same(c, r), "floor(x): constant-evaluation path == run-time path");
}
Q q_trunc()
{
    FT x = nd();
    VF_KNOWN(C13_trunc_tiny, tiny(x));
    VF_KNOWN(C13_trunc_huge, isfin(x) && cast_ub(x));
    VF_KNOWN(C13_trunc_negzero, neg_below_one(x));
    FT c = kc_trunc(x);
    if (isfin(x) && mag(x) > 1 && !same(c, x)) vf_witness("trunc_fraction");
    FT r = kr_trunc(x);
    vf_assert(same(c, r), "trunc(x): constant-evaluation path == run-time path");
}
Q q_round()
{
    FT x = nd();
    VF_KNOWN(C13_round_tiny, tiny(x));
    VF_KNOWN(C13_round_huge, isfin(x) && abs_cast_ub(x));
    FT c = kc_round(x);
    if (isfin(x) && mag(x) > 1 && !same(c, x)) vf_witness("round_fraction");
    FT r = kr_round(x);
    vf_assert(same(c, r), "round(x): constant-evaluation path == run-time path");
}
Q q_rint()
{
    FT x = nd();
    VF_KNOWN(C13_rint_cast_range, cast_ub(x));
    VF_KNOWN(C13_rint_truncates, !cast_ub(x) && (!same(m_trunc(x), m_rint(x)) || (sign_(x) && mag(x) < 1)));
    FT c = kc_rint(x);
    if (isfin(x) && mag(x) > 1 && !same(c, x)) vf_witness("rint_fraction");
    FT r = kr_rint(x);
    vf_assert(same(c, r), "rint(x): constant-evaluation path == run-time path (default rounding mode)");
}
// lrint / llrint: ISO C leaves the result unspecified when the rounded value is not representable -> outside the documented domain
Q q_lrint()
{
    FT x = nd();
    vf_assume(!cast_ub(x));
    VF_KNOWN(C13_lrint_truncates, !same(m_trunc(x), m_rint(x)));
    long c = kc_lrint(x);
    if (mag(x) > 1 && (FT)c != x) vf_witness("lrint_fraction");
    long r = kr_lrint(x);
    vf_assert(c == r, "lrint(x): constant-evaluation path == run-time path (default rounding mode)");
}
Q q_llrint()
{
    FT x = nd();
    vf_assume(!cast_ub(x));
    VF_KNOWN(C13_lrint_truncates, !same(m_trunc(x), m_rint(x)));
    long long c = kc_llrint(x);
    if (mag(x) > 1 && (FT)c != x) vf_witness("llrint_fraction");
    long long r = kr_llrint(x);
    vf_assert(c == r, "llrint(x): constant-evaluation path == run-time path (default rounding mode)");
}
Q q_copysign()
{
    FT x = nd(), y = nd();
    VF_KNOWN(C13_copysign_zero_nan, !isnan_(x) && (x == 0 || y == 0 || isnan_(y)) && sign_(x) != sign_(y));
    FT c = kc_copysign(x, y);
    if (!isnan_(x) && !same(c, x)) vf_witness("copysign_flips");
    FT r = kr_copysign(x, y);
    vf_assert(same(c, r), "copysign(x, y): constant-evaluation path == run-time path");
}
Q q_signbit()
{
    FT x = nd();
    VF_KNOWN(C13_signbit_gcc_poszero_negnan, GCFG && (bits(x) == 0 || (isnan_(x) && sign_(x))));
    bool c = kc_signbit(x);
    if (c) vf_witness("signbit_true");
    bool r = kr_signbit(x);
    vf_assert(c == r, "signbit(x): constant-evaluation path == run-time path");
}
Q q_fma()
{
    FT x = nd(), y = nd(), z = nd();
    VF_KNOWN(C13_fma_unfused, !same(m_fma(x, y, z), m_muladd(x, y, z)));
    FT c = kc_fma(x, y, z);
    if (isfin(c) && c != z && c != 0) vf_witness("fma_nontrivial");
    FT r = kr_fma(x, y, z);
    vf_assert(same(c, r), "fma(x, y, z): constant-evaluation path == run-time path");
}
// integral overloads: every int / long long (independent of FT)
Q q_int_overloads()
{
    int v = (int)vf_nd_u32();
    double c = kc_floor_i(v);
    if (v < -1000000) vf_witness("int_negative");
    vf_assert(samed(c, kr_floor_i(v)), "floor(int): both paths agree");
    vf_assert(samed(kc_trunc_i(v), kr_trunc_i(v)), "trunc(int): both paths agree");
    vf_assert(samed(kc_round_i(v), kr_round_i(v)), "round(int): both paths agree");
    vf_assert(samed(kc_rint_i(v), kr_rint_i(v)), "rint(int): both paths agree");
    vf_assert(kc_lrint_i(v) == kr_lrint_i(v), "lrint(int): both paths agree");
    vf_assert(kc_llrint_i(v) == kr_llrint_i(v), "llrint(int): both paths agree");
    vf_assert(samed(kc_ceil_i(v), kr_ceil_i(v)), "ceil(int): both paths agree");
}
// long long: double(v) can be 2^63 exactly (v > 2^63 - 513), where the gcem cast is undefined: the *_huge findings
Q q_ll_overloads()
{
    long long v = (long long)vf_nd_u64();
    bool top = (double)v >= 0x1p63;
    VF_KNOWN(C13_floor_huge, top);
    VF_KNOWN(C13_trunc_huge, top);
    VF_KNOWN(C13_round_huge, top);
    VF_KNOWN(C13_rint_cast_range, top);
    VF_KNOWN(C13_ceil_huge, top);
    double c = kc_floor_l(v);
    if (v < -(1ll << 60)) vf_witness("ll_negative");
    vf_assert(samed(c, kr_floor_l(v)), "floor(long long): both paths agree");
    vf_assert(samed(kc_trunc_l(v), kr_trunc_l(v)), "trunc(long long): both paths agree");
    vf_assert(samed(kc_round_l(v), kr_round_l(v)), "round(long long): both paths agree");
    vf_assert(samed(kc_rint_l(v), kr_rint_l(v)), "rint(long long): both paths agree");
    vf_assert(samed(kc_ceil_l(v), kr_ceil_l(v)), "ceil(long long): both paths agree");
}

// ================================================================ single code path: same code at compile time and at run time; the UB build of
// these queries decides "constant evaluation succeeds for every argument" (UB in a constant expression = compile error)
Q q_ceil()
{
    FT x = nd();
    VF_KNOWN(C13_ceil_huge, isfin(x) && cast_ub(x));
    FT c = kc_ceil(x);
    if (isfin(x) && mag(x) > 1 && !same(c, x)) vf_witness("ceil_fraction");
    FT r = kr_ceil(x);
    vf_assert(same(c, r), "ceil(x): single path, both TUs agree");
}
Q q_fabs() { FT x = nd(); FT c = kc_fabs(x); if (sign_(x) && !isnan_(x)) vf_witness("fabs_negative"); vf_assert(same(c, kr_fabs(x)), "fabs(x): single path, both TUs agree"); }
Q q_fmin() { FT x = nd(), y = nd(); FT c = kc_fmin(x, y); if (x < y) vf_witness("fmin_first"); vf_assert(same(c, kr_fmin(x, y)), "fmin(x, y): single path, both TUs agree"); }
Q q_fmax() { FT x = nd(), y = nd(); FT c = kc_fmax(x, y); if (x < y) vf_witness("fmax_second"); vf_assert(same(c, kr_fmax(x, y)), "fmax(x, y): single path, both TUs agree"); }
Q q_fdim() { FT x = nd(), y = nd(); FT c = kc_fdim(x, y); if (x > y) vf_witness("fdim_positive"); vf_assert(same(c, kr_fdim(x, y)), "fdim(x, y): single path, both TUs agree"); }
Q q_classify()
{
    FT x = nd();
    bool n = kc_isnan(x);
    if (n) vf_witness("classify_nan");
    vf_assert(n == kr_isnan(x), "isnan(x): both TUs agree");
    vf_assert(kc_isinf(x) == kr_isinf(x), "isinf(x): both TUs agree");
    vf_assert(kc_isfinite(x) == kr_isfinite(x), "isfinite(x): both TUs agree");
}
