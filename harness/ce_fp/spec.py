"""C13 family ce_fp: <etl/cmath.hpp> functions with a constant-evaluation path (gcem / portable fallback) and a run-time path
(compiler builtin): both paths must return the same value for every argument, and the constant-evaluation path must be free of
undefined behaviour (UB in a constant expression is a compile error). Also serves C02 with the UB build of the same queries."""
PROPERTIES = ['C13', 'C02']
KERNEL2 = 'kernel_rt.cpp'

BOUNDS = {
    'quick': 'float: EVERY bit pattern of every argument, one query per function (all 2^64 pairs for copysign/fmin/fmax/fdim, all 2^96 triples for fma): '
             'floor, trunc, round, rint, lrint, llrint, copysign, signbit, fma (dispatch on is_constant_evaluated(): constant-evaluation path vs run-time path), '
             'signbit additionally in the gcc configuration of signbit.hpp (GCFG=1: __builtin_signbit at run time); integral overloads floor/trunc/round/rint/lrint/llrint/ceil '
             'for every int and floor/trunc/round/rint/ceil for every long long; single-path functions ceil, fabs, fmin, fmax, fdim, isnan, isinf, isfinite (same code '
             'at compile time and run time). Every query twice: functional (paths agree bit for bit, NaN == NaN) and UB build (signed overflow, shifts, division by zero, '
             'float-cast-overflow ... on both paths for every argument). double: every bit pattern for the unary functions and signbit (both configurations)',
    'thorough': 'as quick plus double for every entry (2^128 pairs for the binary functions, 2^192 triples for fma)',
}
ASSUMPTIONS = [
    'C13: the constant-evaluation branch is reached by `#define __builtin_is_constant_evaluated() true` in kernel.cpp before tetl is included (DESIGN.md C13): '
    'the code a constant expression executes is run by the solver. Trusted: that the compilers\' constant evaluators implement the abstract machine with IEEE '
    'round-to-nearest arithmetic (the *_huge / rint_cast_range findings were additionally confirmed with real `constexpr` variables under g++ 12 and clang++ 16)',
    'C13: run-time path = the compiler builtins as clang lowers them (llvm.floor/trunc/round/rint/lrint/llrint/copysign/fma), modelled by CBMC 6.11\'s IEEE float theory and '
    'libm models (floatbv_fma is fused: single rounding); family cmath_exact (C16) checks these models against glibc',
    'C13: results compared bit for bit (the sign of a zero result counts); two NaN results are equal whatever their sign/payload',
    'C13: default rounding mode (round to nearest even) at run time - rint/lrint/llrint are not exercised under other modes; floating-point exceptions/errno not observed',
    'C13: lrint/llrint: arguments whose rounded value does not fit long (NaN, inf, x < -2^63, x >= 2^63) are outside the documented domain (ISO C: unspecified result)',
    'C13: fma constant-evaluation path x * y + z is translated unfused (what the constant evaluators of gcc and clang compute; confirmed natively)',
    'C13: the libm models std::trunc/std::rint/std::fma appear in the driver only inside VF_KNOWN region predicates (where do the two paths legitimately - as recorded '
    'findings - differ), never as the expected value',
    'C13: ceil, fabs, fmin, fmax, fdim, isnan, isinf, isfinite have one code path in tetl (gcem or a constexpr-capable builtin): the functional query is the identity, '
    'the UB build decides that constant evaluation cannot fail. Whether that single path is the right function is C16',
    'C13: long double overloads are outside the claim (translator has no x86_fp80); the f/l-suffixed names forward to the same detail functions (C16 checks floorf == floor etc.); '
    'the 17 transcendental functions (sin, exp, pow, ...) are outside the claim (DESIGN.md: results not exactly specified)',
    'C13: GCFG selects how _cmath/signbit.hpp sees the compiler (TETL_COMPILER_CLANG defined or not) independent of the compiler that builds the harness, so the '
    'solver build (clang) and the native replay (g++) run the same branch',
]

DISPATCH1 = ['floor', 'trunc', 'round', 'rint', 'lrint', 'llrint', 'signbit']
DISPATCH2 = ['copysign']
SINGLE1 = ['ceil', 'fabs', 'classify']
SINGLE2 = ['fmin', 'fmax', 'fdim']


def queries(tier, prop='C13'):
    out = []
    modes = [(True, True)] if prop == 'C02' else [(False, False), (True, True)]

    def add(entry, dbl, g, ub, nofunc, budget=120, solver=None):
        cfg = {'FT': 'double' if dbl else 'float', 'DBL': int(dbl), 'GCFG': g, 'UBQ': int(ub)}
        out.append(dict(entry='q_' + entry, cfg=cfg, unwind=4, solver=solver or ['cadical', 'kissat'], budget=budget, ub=ub, nofunc=nofunc))

    for ub, nofunc in modes:
        for dbl in (False, True):
            full = (not dbl) or tier != 'quick'
            for e in DISPATCH1 + SINGLE1:
                add(e, dbl, 0, ub, nofunc)
            add('signbit', dbl, 1, ub, nofunc)
            if full:
                for e in DISPATCH2 + SINGLE2:
                    add(e, dbl, 0, ub, nofunc)
                add('fma', dbl, 0, ub, nofunc, budget=300 if not dbl else 900)
        add('int_overloads', False, 0, ub, nofunc)
        add('ll_overloads', False, 0, ub, nofunc)
    return out
