"""C13 family ce_fp: <etl/cmath.hpp> functions with a constant-evaluation path (gcem / portable fallback) and a run-time path
(compiler builtin): both paths must return the same value for every argument, and the constant-evaluation path must be free of
undefined behaviour (UB in a constant expression is a compile error). Also serves C02 with the UB build of the same queries."""
PROPERTIES = ['C13', 'C02']
KERNEL2 = 'kernel_rt.cpp'

BOUNDS = {
    'quick': 'float: EVERY bit pattern of every argument, one query per function (all 2^64 pairs for copysign/fmin/fmax/fdim, all 2^96 triples for fma): '
             'floor, trunc, round, rint, lrint, llrint, copysign, signbit, fma (dispatch on is_constant_evaluated(): constant-evaluation path vs run-time path), '
             'signbit additionally in the gcc configuration of signbit.hpp (GCFG=1: __builtin_signbit at run time); integral overloads floor/trunc/round/rint/lrint/llrint/ceil '
             'for every int and floor/trunc/round/rint/ceil for every long long; single-path functions ceil, fabs, fmin, fmax, fdim, isnan, isinf, isfinite (same code '
             'at compile time and run time). Every query twice: (a) functional: the two paths agree bit for bit (NaN == NaN); (b) "constant evaluation cannot fail" '
             '(CEQ=1): UB build (signed overflow, shifts, division by zero, float-cast-overflow, ...) of both paths, and the constant-evaluation path compiled with strict '
             'floating-point semantics so that every floating-point operation it executes is checked against what gcc/clang refuse in a constant expression '
             '(NaN result, invalid operation, division by zero, overflow, out-of-range conversion). double: every bit pattern for the unary functions and signbit (both configurations)',
    'thorough': 'as quick plus double for every entry (2^128 pairs for the binary functions, 2^192 triples for fma)',
}
ASSUMPTIONS = [
    'C13: the constant-evaluation branch is reached by `#define __builtin_is_constant_evaluated() true` in kernel.cpp before tetl is included (DESIGN.md C13): '
    'the code a constant expression executes is run by the solver. Trusted: that the compilers\' constant evaluators implement the abstract machine with IEEE '
    'round-to-nearest arithmetic. Side check on every run (spec.validate(), not the deciding step): smoke.cpp compares constexpr tables computed by g++ 12 and clang++ 16 '
    '(-O0 and -O2, float and double, ~30000 boundary rows each) with the macro-forced branch, and re-compiles the expressions whose constant evaluation is recorded as failing',
    'C13: run-time path = the compiler builtins as clang lowers them (llvm.floor/trunc/round/rint/lrint/llrint/copysign/fma), modelled by CBMC 6.11\'s IEEE float theory and '
    'libm models (floatbv_fma is fused: single rounding); family cmath_exact (C16) checks these models against glibc',
    'C13: results compared bit for bit (the sign of a zero result counts); two NaN results are equal whatever their sign/payload',
    'C13: default rounding mode (round to nearest even) at run time - rint/lrint/llrint are not exercised under other modes; floating-point exceptions/errno not observed',
    'C13: lrint/llrint: arguments whose rounded value does not fit long (NaN, inf, x < -2^63, x >= 2^63) are outside the documented domain (ISO C: unspecified result)',
    'C13: fma constant-evaluation path x * y + z is translated unfused (what the constant evaluators of gcc and clang compute; confirmed natively and by smoke.cpp)',
    'C13 (CEQ=1 queries): "constant evaluation succeeds" = no sanitizer-visible UB on either path and none of the LL_CEFP_* obligations of engine/ll_prelude.h fails on the '
    'constant-evaluation path: rules measured with g++ 12 / clang++ 16 ([expr.pre]/4): x/0, inf-inf, 0*inf, 0/0 and out-of-range float->integer conversions are rejected by both, '
    'every NaN result (also from a NaN operand) by clang, overflow to infinity by gcc; comparisons, negation and NaN/inf operands as such are accepted. '
    'Arguments with a range or domain error are outside the documented domain and excluded from these queries only (not from the functional ones): fdim with an overflowing '
    'difference of finite arguments; fma with 0 * inf, inf - inf or an overflowing product / sum of finite values',
    'C13: the libm models std::trunc/std::rint/std::fma and plain float arithmetic appear in the driver only inside VF_KNOWN region / domain predicates, never as the expected value',
    'C13: ceil, fabs, fmin, fmax, fdim, isnan, isinf, isfinite have one code path in tetl (gcem or a constexpr-capable builtin): the functional query is the identity, '
    'the CEQ=1 query decides that constant evaluation cannot fail. Whether that single path is the right function is C16',
    'C13: long double overloads are outside the claim (translator has no x86_fp80); the f/l-suffixed names forward to the same detail functions (C16 checks floorf == floor etc.); '
    'the 17 transcendental functions (sin, exp, pow, ...) are outside the claim (DESIGN.md: results not exactly specified)',
    'C13: GCFG selects how _cmath/signbit.hpp sees the compiler (TETL_COMPILER_CLANG defined or not) independent of the compiler that builds the harness, so the '
    'solver build (clang) and the native replay (g++) run the same branch',
    'C02 (this family): the UB build of the same queries without the strict floating-point obligations (those concern constant evaluation only)',
]

DISPATCH1 = ['floor', 'trunc', 'round', 'rint', 'lrint', 'llrint', 'signbit']
DISPATCH2 = ['copysign']
SINGLE1 = ['ceil', 'fabs', 'classify']
SINGLE2 = ['fmin', 'fmax', 'fdim']


def queries(tier, prop='C13'):
    if prop == 'C13':
        validate()
    out = []
    modes = [(True, True)] if prop == 'C02' else [(False, False), (True, True)]

    def add(entry, dbl, g, ub, nofunc, budget=120, solver=None):
        cfg = {'FT': 'double' if dbl else 'float', 'DBL': int(dbl), 'GCFG': g, 'UBQ': int(ub), 'CEQ': int(ub and prop == 'C13')}
        out.append(dict(entry='q_' + entry, cfg=cfg, unwind=4, solver=solver or ['cadical', 'kissat'], budget=budget, ub=ub, nofunc=nofunc))

    for ub, nofunc in modes:
        for dbl in (False, True):
            full = (not dbl) or tier != 'quick'
            for e in DISPATCH1 + SINGLE1:
                add(e, dbl, 0, ub, nofunc)
            add('signbit', dbl, 1, ub, nofunc)
            if full:
                for e in DISPATCH2 + SINGLE2:
                    add(e, dbl, 0, ub, nofunc)
                add('fma', dbl, 0, ub, nofunc, budget=300 if not dbl else 900, solver=['cvc5', 'kissat'])   # SMT route: the region / domain predicates repeat the kernel's products, cvc5 merges the identical terms
        for fn in ('floor', 'trunc', 'round', 'rint', 'lrint', 'llrint', 'ceil'):
            add(fn + '_i', False, 0, ub, nofunc)
        for fn in ('floor', 'trunc', 'round', 'rint', 'ceil'):
            add(fn + '_l', False, 0, ub, nofunc)
    return out


# ---------------------------------------------------------------------------------------------------------------------------------
# Side checks with the REAL constant evaluators of g++ and clang++ (DESIGN.md C13 "trusted ... sanity side-check"; not the deciding step)
import concurrent.futures as _cf
import os as _os
import shutil as _shutil
import subprocess as _sp
import tempfile as _tempfile

_HERE = _os.path.dirname(_os.path.abspath(__file__))
_ENGINE = _os.path.join(_os.path.dirname(_os.path.dirname(_HERE)), 'engine')
_REPO = _os.environ.get('VF_REPO', '/repo')
# expressions whose constant evaluation must FAIL while the finding is open (compilers that reject it): native confirmation of the
# findings that are compile errors rather than wrong values
PROBES = [
    ('C13_floor_huge', 'etl::floor(1e30F)', ('g++', 'clang++-16')), ('C13_trunc_huge', 'etl::trunc(-1e30)', ('g++', 'clang++-16')),
    ('C13_round_huge', 'etl::round(1e19F)', ('g++', 'clang++-16')), ('C13_ceil_huge', 'etl::ceil(1e30F)', ('g++', 'clang++-16')),
    ('C13_rint_cast_range', 'etl::rint(__builtin_inff())', ('g++', 'clang++-16')), ('C13_rint_cast_range', 'etl::rint(__builtin_nanf(""))', ('g++', 'clang++-16')),
    ('C13_fabs_nan_clang', 'etl::fabs(__builtin_nanf(""))', ('clang++-16',)), ('C13_fdim_nan_clang', 'etl::fdim(__builtin_nanf(""), 1.0F)', ('clang++-16',)),
    ('C13_fdim_inf_inf', 'etl::fdim(__builtin_inff(), __builtin_inff())', ('g++', 'clang++-16')), ('C13_fma_nan_clang', 'etl::fma(__builtin_nanf(""), 1.0F, 1.0F)', ('clang++-16',)),
]
_validated = [False]


def _open_ids():
    import json
    ids = set()
    for p in (_os.path.join(_HERE, 'kf.json'), _os.path.join(_os.path.dirname(_os.path.dirname(_HERE)), 'known_findings.json')):
        if _os.path.exists(p):
            d = json.load(open(p))
            for k in (d.get('open', []) if isinstance(d, dict) else d):
                if isinstance(k, dict) and 'id' in k:
                    ids.add(k['id'])
    return ids


def _run(cmd, timeout=300):
    try:
        r = _sp.run(cmd, capture_output=True, text=True, timeout=timeout)
        return r.returncode, r.stdout + r.stderr
    except _sp.TimeoutExpired:
        return 124, 'timeout'


def validate():
    """(1) smoke.cpp: constexpr tables computed by the compiler == the macro-forced branch of kernel.cpp on a boundary-value table
    (g++ and clang++-16, -O0 and -O2, float and double); a mismatch is an error of the harness technique -> RuntimeError.
    (2) PROBES: the compile-time failures recorded as findings still are compile errors (informational)."""
    if _validated[0] or _os.environ.get('C13_SKIP_SMOKE'):
        return
    _validated[0] = True
    d = _tempfile.mkdtemp(prefix='c13_smoke_')
    inc = ['-std=c++20', '-w', '-I' + _os.path.join(_REPO, 'include'), '-I' + _ENGINE, '-I' + _HERE]
    try:
        def smoke(job):
            cc, opt, dbl = job
            exe = _os.path.join(d, 'smoke_%s_%s_%d' % (cc.replace('+', 'x'), opt[1:], dbl))
            rc, o = _run([cc] + inc + [opt, '-ffp-contract=off', '-DFT=' + ('double' if dbl else 'float'), '-DDBL=%d' % dbl,
                                       _os.path.join(_HERE, 'smoke.cpp'), _os.path.join(_HERE, 'kernel.cpp'), '-o', exe])
            if rc != 0:
                return job, None, 'does not compile: ' + o[-1200:]
            rc, o = _run([exe], timeout=120)
            return job, rc == 0, o.strip().splitlines()[-1] if o.strip() else ''

        def probe(job):
            fid, expr, ccs = job
            res = []
            for cc in ccs:
                src = _os.path.join(d, 'probe_%d_%s.cpp' % (abs(hash((expr, cc))), cc.replace('+', 'x')))
                open(src, 'w').write('#include <etl/cmath.hpp>\nconstexpr auto v = %s;\nint main() { return v != v; }\n' % expr)
                rc, o = _run([cc] + inc + ['-fsyntax-only', src])
                res.append((cc, rc != 0))
            return fid, expr, res
        jobs = [(cc, opt, dbl) for cc in ('g++', 'clang++-16') for opt in ('-O0', '-O2') for dbl in (0, 1)]
        opn = _open_ids()
        with _cf.ThreadPoolExecutor(int(_os.environ.get('VF_JOBS', '4'))) as ex:
            sm = list(ex.map(smoke, jobs))
            pr = list(ex.map(probe, [p_ for p_ in PROBES if p_[0] in opn]))   # only findings that are listed open
        bad = [(j, msg) for j, ok, msg in sm if not ok]
        if bad:
            raise RuntimeError('ce_fp: constexpr smoke table disagrees with the macro-forced constant-evaluation branch: %s' % bad[:3])
        rows = sum(int(msg.split()[2]) for j, ok, msg in sm if msg.startswith('ce_fp smoke:'))
        rej = sum(1 for fid, expr, res in pr for cc, r in res if r)
        tot = sum(len(res) for fid, expr, res in pr)
        print('[ce_fp] constexpr smoke tables (g++/clang++-16, -O0/-O2, float/double): %d rows, 0 mismatches; %d/%d compile-time failures of open findings reproduce' % (rows, rej, tot), flush=True)
        for fid, expr, res in pr:
            for cc, r in res:
                if not r:
                    print('[ce_fp] NOTE: `constexpr auto v = %s;` now compiles with %s (finding %s no longer reproduces there)' % (expr, cc, fid), flush=True)
    finally:
        _shutil.rmtree(d, ignore_errors=True)
