// C13 family ce_fp, constant-evaluation TU: etl::is_constant_evaluated() is true at run time here (DESIGN.md C13). See body.h.
#include <stdint.h>
#include <stddef.h>
#define __builtin_is_constant_evaluated() true
// Strict floating-point exception semantics (clang = solver build only): every source-level floating-point operation of the
// constant-evaluation path stays one (constrained) IR operation - no folding of `n * -1` into fneg, no speculation - and the
// translator attaches the LL_CEFP_* obligations of engine/ll_prelude.h to it: an operation whose result is a NaN, overflows or
// divides by zero, and an out-of-range float -> integer conversion, are not permitted in a constant expression ([expr.pre]/4;
// gcc and clang reject them), i.e. constant evaluation would FAIL for that argument. Values are unchanged (default rounding mode).
// Only in the "constant evaluation cannot fail" queries of C13 (cfg CEQ=1, UB build); the functional queries and C02 use the plain build.
#ifndef CEQ
#define CEQ 0
#endif
#if defined(__clang__) && CEQ
#pragma clang fp exceptions(strict)
#endif
#define KPRE kc_
#include "body.h"
static_assert(etl::floor(1.5F) == 1.0F); // the macro does not disturb real constant evaluation in this TU
