// C13 family ce_fp, constant-evaluation TU: etl::is_constant_evaluated() is true at run time here (DESIGN.md C13). See body.h.
#include <stdint.h>
#include <stddef.h>
#define __builtin_is_constant_evaluated() true
#define KPRE kc_
#include "body.h"
static_assert(etl::floor(1.5F) == 1.0F); // the macro does not disturb real constant evaluation in this TU
