// C13 kernels (family ce_fp), shared by kernel.cpp (constant-evaluation path, names kc_*) and kernel_rt.cpp (run-time path, kr_*).
// Thin wrappers around the public functions of <etl/cmath.hpp>; the SAME source in both TUs. In kernel.cpp
// `__builtin_is_constant_evaluated()` is #defined to `true` before tetl is included, so the IR contains the branch a constant
// expression executes (gcem / portable fallbacks); kernel_rt.cpp gets the run-time branch (__builtin_floorf, ... -> llvm intrinsics,
// modelled by CBMC's IEEE float theory / libm models).
// cfg: FT = float|double, DBL = 0|1, GCFG = 0|1: compiler configuration of _cmath/signbit.hpp, the one cmath header whose run-time
// branch depends on the compiler (`#if __has_builtin(__builtin_signbit) and not defined(TETL_COMPILER_CLANG)`): GCFG=0 as clang
// sees it (fallback on both paths), GCFG=1 as gcc sees it (__builtin_signbit at run time). The selection is made by (un)defining
// TETL_COMPILER_CLANG around the inclusion of the real header, so it is the same on clang (solver build) and g++ (native replay).
#include <etl/_config/all.hpp>
#include <etl/concepts.hpp>
#include <etl/type_traits.hpp>
#ifndef GCFG
#define GCFG 0
#endif
#if GCFG && defined(TETL_COMPILER_CLANG)
#undef TETL_COMPILER_CLANG
#include <etl/_cmath/signbit.hpp>
#define TETL_COMPILER_CLANG
#elif !GCFG && !defined(TETL_COMPILER_CLANG)
#define TETL_COMPILER_CLANG
#include <etl/_cmath/signbit.hpp>
#undef TETL_COMPILER_CLANG
#endif
#include <etl/cmath.hpp>
#include "vf.h" // after the library headers (K and Q are macros)
#ifndef FT
#define FT float
#endif
#ifndef DBL
#define DBL 0
#endif
#define CAT2(a, b) a##b
#define CAT(a, b) CAT2(a, b)
#define KN(n) CAT(KPRE, n)

// ---- functions that branch on etl::is_constant_evaluated()
K FT KN(floor)(FT x) { return etl::floor(x); }
K FT KN(trunc)(FT x) { return etl::trunc(x); }
K FT KN(round)(FT x) { return etl::round(x); }
K FT KN(rint)(FT x) { return etl::rint(x); }
K long KN(lrint)(FT x) { return etl::lrint(x); }
K long long KN(llrint)(FT x) { return etl::llrint(x); }
K FT KN(copysign)(FT x, FT y) { return etl::copysign(x, y); }
K bool KN(signbit)(FT x) { return etl::signbit(x); }
K FT KN(fma)(FT x, FT y, FT z) { return etl::fma(x, y, z); }
// integral overloads (convert to double, then the same dispatch)
K double KN(floor_i)(int v) { return etl::floor(v); }
K double KN(trunc_i)(int v) { return etl::trunc(v); }
K double KN(round_i)(int v) { return etl::round(v); }
K double KN(rint_i)(int v) { return etl::rint(v); }
K long KN(lrint_i)(int v) { return etl::lrint(v); }
K long long KN(llrint_i)(int v) { return etl::llrint(v); }
K double KN(floor_l)(long long v) { return etl::floor(v); }
K double KN(trunc_l)(long long v) { return etl::trunc(v); }
K double KN(round_l)(long long v) { return etl::round(v); }
K double KN(rint_l)(long long v) { return etl::rint(v); }
// ---- single code path (gcem or a builtin that is itself usable in constant expressions): compile time and run time execute the
// same code; for C13 what remains is that this code has no undefined behaviour for any argument (UB build)
K FT KN(ceil)(FT x) { return etl::ceil(x); }
K FT KN(fabs)(FT x) { return etl::fabs(x); }
K FT KN(fmin)(FT x, FT y) { return etl::fmin(x, y); }
K FT KN(fmax)(FT x, FT y) { return etl::fmax(x, y); }
K FT KN(fdim)(FT x, FT y) { return etl::fdim(x, y); }
K bool KN(isnan)(FT x) { return etl::isnan(x); }
K bool KN(isinf)(FT x) { return etl::isinf(x); }
K bool KN(isfinite)(FT x) { return etl::isfinite(x); }
K double KN(ceil_i)(int v) { return etl::ceil(v); }
K double KN(ceil_l)(long long v) { return etl::ceil(v); }
