import os
import subprocess
import tempfile

PROPERTIES = ['C18', 'C02']
_here = os.path.dirname(os.path.abspath(__file__))
NARROW = ['isalnum', 'isalpha', 'isblank', 'iscntrl', 'isdigit', 'isgraph', 'islower', 'isprint', 'ispunct', 'isspace', 'isupper', 'isxdigit', 'tolower', 'toupper']
WIDE = ['iswalnum', 'iswalpha', 'iswblank', 'iswcntrl', 'iswdigit', 'iswgraph', 'iswlower', 'iswprint', 'iswpunct', 'iswspace', 'iswupper', 'iswxdigit', 'towlower', 'towupper']
WN = {'quick': 0x180, 'thorough': 0x1000}
BOUNDS = {
    'quick': 'isalnum..isxdigit, tolower, toupper: the argument is one symbolic int over -1 (EOF)..255, all values (exhaustive); '
             'iswalnum..iswxdigit, towlower, towupper: one symbolic wint_t over 0..0x17F and WEOF (exhaustive over that range)',
    'thorough': 'narrow as quick; wide: 0..0xFFF and WEOF (0..0xFFFF was tried: 130-200 s per classification query, no verdict for towupper within 600 s - the 64K-entry oracle table dominates)',
}
ASSUMPTIONS = [
    'C18: oracle = results of the host C library (glibc) under setlocale(LC_ALL, "C"), dumped by harness/cctype/gen_table.c into harness/cctype/.gen/ctab_<n>.h '
    'at the start of every check; classification results are compared as truth values (non-zero / zero), conversions by value',
    'C18: wide arguments outside 0..WN-1 and != WEOF are outside the claim (the property says "the tested wide range")',
]


def gen_table(wn):
    """build + run gen_table.c natively, install the header atomically (other checks may be reading it)"""
    out = os.path.join(_here, '.gen', 'ctab_%d.h' % wn)
    os.makedirs(os.path.dirname(out), exist_ok=True)
    d = tempfile.mkdtemp(prefix='c18_ctab_')
    try:
        exe = os.path.join(d, 'gen_table')
        r = subprocess.run(['gcc', '-O1', os.path.join(_here, 'gen_table.c'), '-o', exe], capture_output=True, text=True, timeout=120)
        if r.returncode != 0:
            raise RuntimeError('cctype: gen_table.c does not compile: ' + r.stderr[-1000:])
        r = subprocess.run([exe, str(wn)], capture_output=True, text=True, timeout=120)
        if r.returncode != 0 or 'vf_weof_upper' not in r.stdout:
            raise RuntimeError('cctype: gen_table failed (rc %d)' % r.returncode)
        if not (os.path.exists(out) and open(out).read() == r.stdout):
            tmp = out + '.tmp.%d' % os.getpid()
            open(tmp, 'w').write(r.stdout)
            os.replace(tmp, out)
    finally:
        import shutil
        shutil.rmtree(d, ignore_errors=True)
    return out


def queries(tier, prop='C18'):
    ub = prop == 'C02'
    wn = WN[tier]
    gen_table(wn)
    out = []
    for f in NARROW + WIDE:
        out.append(dict(entry='q_' + f, cfg={'WN': wn}, unwind=4, budget=120 if tier == 'quick' else 600, solver=['cadical', 'minisat'], ub=ub, nofunc=ub))
    return out


# ./vf replay builds the driver without calling queries(): make sure the headers exist
for _wn in WN.values():
    if not os.path.exists(os.path.join(_here, '.gen', 'ctab_%d.h' % _wn)):
        try:
            gen_table(_wn)
        except Exception as _e:  # reported when the family is actually built
            pass
