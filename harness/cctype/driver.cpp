// C18 driver (cctype / cwctype): the argument is one symbolic value over the whole range the property names
// (narrow: -1 (EOF) .. 255; wide: 0 .. WN-1 and WEOF); oracle = table dumped from the host C library ("C" locale) by spec.py
// at the start of every check (.gen/ctab_<WN>.h, generator gen_table.c). One query per function, exhaustive over the range.
#include "vf.h"
#ifndef WN
#define WN 384
#endif
#define VF_STR2(x) #x
#define VF_STR(x) VF_STR2(x)
#define VF_CTAB2(n) VF_STR(.gen/ctab_##n.h)
#define VF_CTAB(n) VF_CTAB2(n)
#include VF_CTAB(WN)
static_assert(VF_WN == WN, "table generated for another wide range");
extern "C" {
#define ND(f) int k_##f(int);
ND(isalnum) ND(isalpha) ND(isblank) ND(iscntrl) ND(isdigit) ND(isgraph) ND(islower) ND(isprint) ND(ispunct) ND(isspace) ND(isupper) ND(isxdigit) ND(tolower) ND(toupper)
#define WD(f) int k_##f(unsigned);
WD(iswalnum) WD(iswalpha) WD(iswblank) WD(iswcntrl) WD(iswdigit) WD(iswgraph) WD(iswlower) WD(iswprint) WD(iswpunct) WD(iswspace) WD(iswupper) WD(iswxdigit)
unsigned k_towlower(unsigned); unsigned k_towupper(unsigned);
}
#define WIT(name) do { [[clang::nomerge]] vf_witness(name); } while (0)
static int nd_narrow() { int c = (int)vf_nd_u32(); vf_assume(c >= -1 && c <= 255); return c; }
static unsigned nd_wide() { unsigned c = vf_nd_u32(); vf_assume(c < VF_WN || c == VF_WEOF); return c; }
// bit order of the table: alnum alpha blank cntrl digit graph lower print punct space upper xdigit
#define NQ(f, bit)                                                                                                     \
    Q q_##f()                                                                                                          \
    {                                                                                                                  \
        int c = nd_narrow(); bool e = ((vf_nmask[c + 1] >> bit) & 1) != 0;                                             \
        vf_assert((k_##f(c) != 0) == e, #f "(c) != 0 agrees with the C library for c in -1..255");                     \
        if (e) WIT("true"); else WIT("false");                                                                         \
    }
NQ(isalnum, 0) NQ(isalpha, 1) NQ(isblank, 2) NQ(iscntrl, 3) NQ(isdigit, 4) NQ(isgraph, 5) NQ(islower, 6) NQ(isprint, 7) NQ(ispunct, 8) NQ(isspace, 9) NQ(isupper, 10) NQ(isxdigit, 11)
Q q_tolower() { int c = nd_narrow(); int e = vf_nlower[c + 1]; vf_assert(k_tolower(c) == e, "tolower(c) == C library for c in -1..255"); if (e != c) WIT("converted"); else WIT("unchanged"); }
Q q_toupper() { int c = nd_narrow(); int e = vf_nupper[c + 1]; vf_assert(k_toupper(c) == e, "toupper(c) == C library for c in -1..255"); if (e != c) WIT("converted"); else WIT("unchanged"); }
#define WQ(f, bit)                                                                                                     \
    Q q_##f()                                                                                                          \
    {                                                                                                                  \
        unsigned c = nd_wide(); bool e = (((c == VF_WEOF ? vf_weof_mask : vf_wmask[c < VF_WN ? c : 0]) >> bit) & 1) != 0; \
        vf_assert((k_##f(c) != 0) == e, #f "(c) != 0 agrees with the C library for c in 0..WN-1 and WEOF");            \
        if (e) WIT("true"); else WIT("false");                                                                         \
        if (c == VF_WEOF) WIT("weof");                                                                                 \
    }
WQ(iswalnum, 0) WQ(iswalpha, 1) WQ(iswblank, 2) WQ(iswcntrl, 3) WQ(iswdigit, 4) WQ(iswgraph, 5) WQ(iswlower, 6) WQ(iswprint, 7) WQ(iswpunct, 8) WQ(iswspace, 9) WQ(iswupper, 10) WQ(iswxdigit, 11)
Q q_towlower() { unsigned c = nd_wide(); unsigned e = c == VF_WEOF ? vf_weof_lower : vf_wlower[c < VF_WN ? c : 0]; vf_assert(k_towlower(c) == e, "towlower(c) == C library"); if (e != c) WIT("converted"); else WIT("unchanged"); }
Q q_towupper() { unsigned c = nd_wide(); unsigned e = c == VF_WEOF ? vf_weof_upper : vf_wupper[c < VF_WN ? c : 0]; vf_assert(k_towupper(c) == e, "towupper(c) == C library"); if (e != c) WIT("converted"); else WIT("unchanged"); }
