// C18 kernels (cctype / cwctype): one wrapper per function, no logic.
#include "vf.h"
#include <etl/cctype.hpp>
#include <etl/cwctype.hpp>
#define NK(f) K int k_##f(int c) { return etl::f(c); }
NK(isalnum) NK(isalpha) NK(isblank) NK(iscntrl) NK(isdigit) NK(isgraph) NK(islower) NK(isprint) NK(ispunct) NK(isspace) NK(isupper) NK(isxdigit)
NK(tolower) NK(toupper)
#define WK(f) K int k_##f(etl::wint_t c) { return etl::f(c); }
WK(iswalnum) WK(iswalpha) WK(iswblank) WK(iswcntrl) WK(iswdigit) WK(iswgraph) WK(iswlower) WK(iswprint) WK(iswpunct) WK(iswspace) WK(iswupper) WK(iswxdigit)
K etl::wint_t k_towlower(etl::wint_t c) { return etl::towlower(c); }
K etl::wint_t k_towupper(etl::wint_t c) { return etl::towupper(c); }
static_assert(sizeof(etl::wint_t) == 4 && etl::wint_t(-1) > 0, "driver passes wint_t as unsigned int");
