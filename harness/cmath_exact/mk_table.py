#!/usr/bin/env python3
"""Reference table for the CBMC libm models that cmath_exact/driver.cpp uses as a second oracle (DESIGN.md C16).

`python3 mk_table.py write`   regenerates libm_table.inc from the glibc of this machine (ctypes -> libm.so.6);
`verify()` (called by spec.py on every run) recomputes every row with glibc and compares it with the file, so the
numbers the solver sees in q_model_table are glibc's, not something typed in by hand.

Row formats (all values are raw bit patterns; a NaN result is stored as the canonical quiet NaN, NaN-ness only is compared):
  U1(x, floor, ceil, trunc, round, rint, nearbyint, fabs, inrange, lrint, llrint)       float / U1D(...) double
  B2(x, y, copysign, fmin, fmax, minmax_ok)                                           float / B2D(...) double
inrange = 1 when rint(x) is representable in long (lrint/llrint compared only then);
minmax_ok = 0 for (+0,-0)/(-0,+0), where ISO C leaves the sign of fmin/fmax open (glibc returns the second argument).
"""
import ctypes
import os
import struct
import sys

HERE = os.path.dirname(os.path.abspath(__file__))
INC = os.path.join(HERE, 'libm_table.inc')


def _libm():
    m = ctypes.CDLL('libm.so.6')
    f, d, l, ll = ctypes.c_float, ctypes.c_double, ctypes.c_long, ctypes.c_longlong
    for n in ('floor', 'ceil', 'trunc', 'round', 'rint', 'nearbyint', 'fabs'):
        getattr(m, n + 'f').restype = f; getattr(m, n + 'f').argtypes = [f]
        getattr(m, n).restype = d; getattr(m, n).argtypes = [d]
    for n in ('copysign', 'fmin', 'fmax'):
        getattr(m, n + 'f').restype = f; getattr(m, n + 'f').argtypes = [f, f]
        getattr(m, n).restype = d; getattr(m, n).argtypes = [d, d]
    m.lrintf.restype = l; m.lrintf.argtypes = [f]; m.lrint.restype = l; m.lrint.argtypes = [d]
    m.llrintf.restype = ll; m.llrintf.argtypes = [f]; m.llrint.restype = ll; m.llrint.argtypes = [d]
    return m


def f2b(x): return struct.unpack('<I', struct.pack('<f', x))[0]
def b2f(b): return struct.unpack('<f', struct.pack('<I', b))[0]
def d2b(x): return struct.unpack('<Q', struct.pack('<d', x))[0]
def b2d(b): return struct.unpack('<d', struct.pack('<Q', b))[0]


def canon(b, dbl):
    if dbl:
        return 0x7ff8000000000000 if (b & 0x7ff0000000000000) == 0x7ff0000000000000 and (b & 0xfffffffffffff) else b
    return 0x7fc00000 if (b & 0x7f800000) == 0x7f800000 and (b & 0x7fffff) else b


def unary_inputs(dbl):
    mb, bias, eb = (52, 1023, 11) if dbl else (23, 127, 8)
    sign = 1 << (mb + eb)
    fr = (1 << mb) - 1
    def mk(e, f): return ((e + bias) << mb) | f
    pos = [0, 1, 2, fr, mk(-bias + 1, 0), mk(-bias + 1, 1)]                    # zero, denormals, smallest normals
    pos += [mk(-mb - 1, 0), mk(-mb, 0) - 1, mk(-mb, 0), mk(-mb, 1)]            # around epsilon
    for e in [-2, -1, 0, 1, 2, mb - 2, mb - 1, mb, mb + 1, 31, 62, 63, 64, bias]:
        for f in (0, 1, 1 << (mb - 1), (1 << (mb - 1)) - 1, fr):
            pos.append(mk(e, f))
        if 0 <= e < mb:   # k + 0.5 for even / odd k, and its neighbours
            half = 1 << (mb - e - 1)
            for k in (half, half | (half << 1), half - 1, half + 1):
                pos.append(mk(e, k & fr))
    pos += [mk(bias + 1, 0), mk(bias + 1, 1 << (mb - 1)), mk(bias + 1, 1)]    # inf, quiet NaN, signalling NaN
    out = []
    for p in pos:
        for b in (p, p | sign):
            if b not in out:
                out.append(b)
    return out


def binary_inputs(dbl):
    mb, bias, eb = (52, 1023, 11) if dbl else (23, 127, 8)
    sign = 1 << (mb + eb)
    def mk(e, f): return ((e + bias) << mb) | f
    pos = [0, 1, mk(0, 0), mk(1, 1 << (mb - 1)), mk(bias, (1 << mb) - 1), mk(bias + 1, 0), mk(bias + 1, 1 << (mb - 1))]
    return [b for p in pos for b in (p, p | sign)]


def rows(dbl):
    m = _libm()
    s = '' if dbl else 'f'
    tb, fb = (d2b, b2d) if dbl else (f2b, b2f)
    mb = 52 if dbl else 23
    out = []
    for b in unary_inputs(dbl):
        x = fb(b)
        vals = [canon(tb(getattr(m, n + s)(x)), dbl) for n in ('floor', 'ceil', 'trunc', 'round', 'rint', 'nearbyint', 'fabs')]
        inrange = int(x == x and -2.0 ** 63 <= x < 2.0 ** 63)
        lr = getattr(m, 'lrint' + s)(x) if inrange else 0
        llr = getattr(m, 'llrint' + s)(x) if inrange else 0
        w = 16 if dbl else 8
        out.append('%s(0x%0*xu, %s, %d, %dLL%s, %dLL%s)' % ('U1D' if dbl else 'U1', w, b, ', '.join('0x%0*xu' % (w, v) for v in vals), inrange,
                                                              lr if lr != -2 ** 63 else -2 ** 63 + 1, ' - 1' if lr == -2 ** 63 else '',
                                                              llr if llr != -2 ** 63 else -2 ** 63 + 1, ' - 1' if llr == -2 ** 63 else ''))
    bi = binary_inputs(dbl)
    sign = 1 << (63 if dbl else 31)
    for a in bi:
        for c in bi:
            x, y = fb(a), fb(c)
            vals = [canon(tb(getattr(m, n + s)(x, y)), dbl) for n in ('copysign', 'fmin', 'fmax')]
            ok = int(not ((a | sign) == sign and (c | sign) == sign and a != c))
            w = 16 if dbl else 8
            out.append('%s(0x%0*xu, 0x%0*xu, %s, %d)' % ('B2D' if dbl else 'B2', w, a, w, c, ', '.join('0x%0*xu' % (w, v) for v in vals), ok))
    return out


def render():
    L = ['// generated by mk_table.py from glibc (libm.so.6) - do not edit; spec.py re-verifies every row against glibc on each run']
    L += rows(False)
    L += rows(True)
    return '\n'.join(L) + '\n'


def verify():
    """returns (number of rows, list of problems)"""
    if not os.path.exists(INC):
        return 0, ['libm_table.inc missing']
    have = open(INC).read()
    want = render()
    if have == want:
        return have.count('\n') - 1, []
    h, w = have.splitlines(), want.splitlines()
    bad = ['row %d: file %r, glibc %r' % (i, a, b) for i, (a, b) in enumerate(zip(h, w)) if a != b][:5]
    if len(h) != len(w):
        bad.append('row count %d vs %d' % (len(h), len(w)))
    return len(h) - 1, bad


if __name__ == '__main__':
    if len(sys.argv) > 1 and sys.argv[1] == 'write':
        open(INC, 'w').write(render())
        print('wrote', INC, render().count('\n') - 1, 'rows')
    else:
        print(verify())
