// C16 kernels: thin wrappers around the exact-result functions of <etl/cmath.hpp> (+ midpoint, numeric_limits).
// No logic besides marshalling. cfg: FT = float|double, DBL = 0|1 (FT is double), CE = 0|1.
// CE=1 forces the constant-evaluation path (gcem / portable fallbacks) of every function that dispatches on
// etl::is_constant_evaluated() (DESIGN.md C13/C16); CE=0 is the run-time path as clang compiles it.
#include <stdint.h>
#include <stddef.h>
#ifndef CE
#define CE 1
#endif
#if CE
#define __builtin_is_constant_evaluated() true
#endif
#include <etl/cmath.hpp>
#include <etl/limits.hpp>
#include <etl/numeric.hpp>
#include "vf.h" // after the library headers (K and Q are macros)
#ifndef FT
#define FT float
#endif
#ifndef DBL
#define DBL 0
#endif

K FT k_floor(FT x) { return etl::floor(x); }
K FT k_ceil(FT x) { return etl::ceil(x); }
K FT k_trunc(FT x) { return etl::trunc(x); }
K FT k_round(FT x) { return etl::round(x); }
K FT k_rint(FT x) { return etl::rint(x); }
K long k_lrint(FT x) { return etl::lrint(x); }
K long long k_llrint(FT x) { return etl::llrint(x); }
K FT k_copysign(FT x, FT y) { return etl::copysign(x, y); }
K bool k_signbit(FT x) { return etl::signbit(x); }
K FT k_fabs(FT x) { return etl::fabs(x); }
K FT k_abs(FT x) { return etl::abs(x); }
K FT k_fmin(FT x, FT y) { return etl::fmin(x, y); }
K FT k_fmax(FT x, FT y) { return etl::fmax(x, y); }
K FT k_fdim(FT x, FT y) { return etl::fdim(x, y); }
K FT k_nextafter(FT x, FT y) { return etl::nextafter(x, y); }
K bool k_isnan(FT x) { return etl::isnan(x); }
K bool k_isinf(FT x) { return etl::isinf(x); }
K bool k_isfinite(FT x) { return etl::isfinite(x); }
K FT k_fmod(FT x, FT y) { return etl::fmod(x, y); }
K FT k_remainder(FT x, FT y) { return etl::remainder(x, y); }
K FT k_lerp(FT a, FT b, FT t) { return etl::lerp(a, b, t); }
K FT k_hypot(FT x, FT y) { return etl::hypot(x, y); }
K FT k_hypot3(FT x, FT y, FT z) { return etl::hypot(x, y, z); }
K FT k_midpoint(FT a, FT b) { return etl::midpoint(a, b); }
#if !DBL
// the f-suffixed names of the float overloads
K float k_floorf(float x) { return etl::floorf(x); }
K float k_ceilf(float x) { return etl::ceilf(x); }
K float k_truncf(float x) { return etl::truncf(x); }
K float k_roundf(float x) { return etl::roundf(x); }
K float k_rintf(float x) { return etl::rintf(x); }
K long k_lrintf(float x) { return etl::lrintf(x); }
K long long k_llrintf(float x) { return etl::llrintf(x); }
K float k_copysignf(float x, float y) { return etl::copysignf(x, y); }
K float k_fabsf(float x) { return etl::fabsf(x); }
K float k_fminf(float x, float y) { return etl::fminf(x, y); }
K float k_fmaxf(float x, float y) { return etl::fmaxf(x, y); }
K float k_fdimf(float x, float y) { return etl::fdimf(x, y); }
K float k_nextafterf(float x, float y) { return etl::nextafterf(x, y); }
K float k_fmodf(float x, float y) { return etl::fmodf(x, y); }
K float k_remainderf(float x, float y) { return etl::remainderf(x, y); }
K float k_hypotf(float x, float y) { return etl::hypotf(x, y); }
#endif
// integral overloads (promote to double)
K double k_floor_i(int v) { return etl::floor(v); }
K double k_ceil_i(int v) { return etl::ceil(v); }
K double k_trunc_i(int v) { return etl::trunc(v); }
K double k_round_i(int v) { return etl::round(v); }
K double k_rint_i(int v) { return etl::rint(v); }
K long k_lrint_i(int v) { return etl::lrint(v); }
K long long k_llrint_i(int v) { return etl::llrint(v); }
K bool k_isnan_i(int v) { return etl::isnan(v); }
K bool k_isinf_i(int v) { return etl::isinf(v); }
// integer midpoint
K int8_t k_midpoint_i8(int8_t a, int8_t b) { return etl::midpoint(a, b); }
K uint8_t k_midpoint_u8(uint8_t a, uint8_t b) { return etl::midpoint(a, b); }
K int16_t k_midpoint_i16(int16_t a, int16_t b) { return etl::midpoint(a, b); }
K uint16_t k_midpoint_u16(uint16_t a, uint16_t b) { return etl::midpoint(a, b); }
K int32_t k_midpoint_i32(int32_t a, int32_t b) { return etl::midpoint(a, b); }
K uint32_t k_midpoint_u32(uint32_t a, uint32_t b) { return etl::midpoint(a, b); }
K int64_t k_midpoint_i64(int64_t a, int64_t b) { return etl::midpoint(a, b); }
K uint64_t k_midpoint_u64(uint64_t a, uint64_t b) { return etl::midpoint(a, b); }
// numeric_limits<FT> values used by the implementations above: i selects the member
K FT k_limit(int i)
{
    using L = etl::numeric_limits<FT>;
    switch (i) {
    case 0: return L::min();
    case 1: return L::max();
    case 2: return L::lowest();
    case 3: return L::epsilon();
    case 4: return L::infinity();
    case 5: return L::quiet_NaN();
    case 6: return L::denorm_min();
    case 7: return L::round_error();
    default: return L::signaling_NaN();
    }
}
// HUGE_VAL* / INFINITY / NAN macros of <etl/cmath.hpp>
K double k_macro(int i)
{
    switch (i) {
    case 0: return HUGE_VALF;
    case 1: return HUGE_VAL;
    case 2: return INFINITY;
    default: return NAN;
    }
}
