// C16 driver: every bit pattern of FT (float / double) is one symbolic input; the oracle is (a) the IEEE-754 / ISO C
// definition of each function written as a predicate over bit patterns, exact comparisons and one exact subtraction,
// and (b) CBMC's libm model where q_model_table shows that the model agrees with glibc. NaN results are compared by
// NaN-ness only (payload and sign of a NaN result are not compared). Never includes tetl.
#include <stdint.h>
#include <cmath>
#include <limits>
#include <numeric>
#include "vf.h"
#ifndef DBL
#define DBL 0
#endif
#ifndef CE
#define CE 1
#endif
#if DBL
#ifndef FT
#define FT double
#endif
typedef uint64_t UT;
#define MB 52
#define EB 11
static FT nd() { return vf_nd_double(); }
#else
#ifndef FT
#define FT float
#endif
typedef uint32_t UT;
#define MB 23
#define EB 8
static FT nd() { return vf_nd_float(); }
#endif
#define NOINL __attribute__((noinline))
extern "C" {
FT k_floor(FT); FT k_ceil(FT); FT k_trunc(FT); FT k_round(FT); FT k_rint(FT); long k_lrint(FT); long long k_llrint(FT);
FT k_copysign(FT, FT); bool k_signbit(FT); FT k_fabs(FT); FT k_abs(FT); FT k_fmin(FT, FT); FT k_fmax(FT, FT); FT k_fdim(FT, FT); FT k_nextafter(FT, FT);
bool k_isnan(FT); bool k_isinf(FT); bool k_isfinite(FT); FT k_fmod(FT, FT); FT k_remainder(FT, FT); FT k_lerp(FT, FT, FT); FT k_hypot(FT, FT); FT k_hypot3(FT, FT, FT);
FT k_midpoint(FT, FT);
#if !DBL
float k_floorf(float); float k_ceilf(float); float k_truncf(float); float k_roundf(float); float k_rintf(float); long k_lrintf(float); long long k_llrintf(float);
float k_copysignf(float, float); float k_fabsf(float); float k_fminf(float, float); float k_fmaxf(float, float); float k_fdimf(float, float); float k_nextafterf(float, float);
float k_fmodf(float, float); float k_remainderf(float, float); float k_hypotf(float, float);
#endif
double k_floor_i(int); double k_ceil_i(int); double k_trunc_i(int); double k_round_i(int); double k_rint_i(int); long k_lrint_i(int); long long k_llrint_i(int);
bool k_isnan_i(int); bool k_isinf_i(int);
int8_t k_midpoint_i8(int8_t, int8_t); uint8_t k_midpoint_u8(uint8_t, uint8_t); int16_t k_midpoint_i16(int16_t, int16_t); uint16_t k_midpoint_u16(uint16_t, uint16_t);
int32_t k_midpoint_i32(int32_t, int32_t); uint32_t k_midpoint_u32(uint32_t, uint32_t); int64_t k_midpoint_i64(int64_t, int64_t); uint64_t k_midpoint_u64(uint64_t, uint64_t);
FT k_limit(int); double k_macro(int);
}

#include "ieee_ref.h" // bit-level view of FT and the IEEE-754 / ISO C definitions (validated natively against glibc by model_check.cpp)

// ---------------------------------------------------------------- CBMC libm models (second oracle; each is checked against glibc in q_model_table)
static NOINL FT m_floor(FT x) { return std::floor(x); }
static NOINL FT m_ceil(FT x) { return std::ceil(x); }
static NOINL FT m_trunc(FT x) { return std::trunc(x); }
static NOINL FT m_round(FT x) { return std::round(x); }
static NOINL FT m_rint(FT x) { return std::rint(x); }
static NOINL FT m_nearbyint(FT x) { return std::nearbyint(x); }
static NOINL FT m_fabs(FT x) { return std::fabs(x); }
static NOINL long m_lrint(FT x) { return std::lrint(x); }
static NOINL long long m_llrint(FT x) { return std::llrint(x); }
static NOINL FT m_copysign(FT x, FT y) { return std::copysign(x, y); }
static NOINL FT m_fmin(FT x, FT y) { return std::fmin(x, y); }
static NOINL FT m_fmax(FT x, FT y) { return std::fmax(x, y); }

// truncation differs from round-to-nearest-even (x finite)
static bool trunc_ne_rint(FT x) { return rint_up(parts(x)); }

// ================================================================ rounding to an integral value
Q q_floor()
{
    FT x = nd();
    VF_KNOWN(C16_floor_tiny, CE && tiny(x));
    VF_KNOWN(C16_floor_huge, CE && is_fin(x) && cast_ub(x));
    if (is_fin(x) && mag(x) > 1 && !mult_pow2(x, 0)) vf_witness("floor_fraction");
    FT r = k_floor(x);
    vf_assert(spec_floor(x, r), "floor(x): largest integral value <= x, sign of zero kept, inf -> inf, NaN -> NaN");
    vf_assert(same(r, m_floor(x)), "floor(x) == libm model");
#if !DBL
    vf_assert(same(k_floorf(x), r), "floorf(x) == floor(x)");
#endif
}
Q q_ceil()
{
    FT x = nd();
    VF_KNOWN(C16_ceil_tiny, tiny(x));
    VF_KNOWN(C16_ceil_huge, is_fin(x) && cast_ub(x));
    VF_KNOWN(C16_ceil_negzero, sgn(x) && mag(x) < 1 && mag(x) >= EPS);
    if (is_fin(x) && mag(x) > 1 && !mult_pow2(x, 0)) vf_witness("ceil_fraction");
    FT r = k_ceil(x);
    vf_assert(spec_ceil(x, r), "ceil(x): smallest integral value >= x, -0 for x in (-1,-0], inf -> inf, NaN -> NaN");
    vf_assert(same(r, m_ceil(x)), "ceil(x) == libm model");
#if !DBL
    vf_assert(same(k_ceilf(x), r), "ceilf(x) == ceil(x)");
#endif
}
Q q_trunc()
{
    FT x = nd();
    VF_KNOWN(C16_trunc_tiny, CE && tiny(x));
    VF_KNOWN(C16_trunc_huge, CE && is_fin(x) && cast_ub(x));
    VF_KNOWN(C16_trunc_negzero, CE && sgn(x) && mag(x) < 1 && mag(x) >= EPS);
    if (is_fin(x) && mag(x) > 1 && !mult_pow2(x, 0)) vf_witness("trunc_fraction");
    FT r = k_trunc(x);
    vf_assert(spec_trunc(x, r), "trunc(x): integral value nearest to x not larger in magnitude, sign kept");
    vf_assert(same(r, m_trunc(x)), "trunc(x) == libm model");
#if !DBL
    vf_assert(same(k_truncf(x), r), "truncf(x) == trunc(x)");
#endif
}
Q q_round()
{
    FT x = nd();
    VF_KNOWN(C16_round_tiny, CE && tiny(x));
    VF_KNOWN(C16_round_huge, CE && is_fin(x) && huge(x));
    if (is_fin(x) && mag(x) > 1 && !mult_pow2(x, 0)) vf_witness("round_fraction");
    FT r = k_round(x);
    vf_assert(spec_round(x, r), "round(x): nearest integral value, halfway cases away from zero, sign kept");
    vf_assert(same(r, m_round(x)), "round(x) == libm model");
#if !DBL
    vf_assert(same(k_roundf(x), r), "roundf(x) == round(x)");
#endif
}
Q q_rint()
{
    FT x = nd();
    VF_KNOWN(C16_rint_ce_cast_range, CE && cast_ub(x));
    VF_KNOWN(C16_rint_ce_truncates, CE && !cast_ub(x) && (trunc_ne_rint(x) || (sgn(x) && mag(x) < 1)));
    if (is_fin(x) && mag(x) > 1 && !mult_pow2(x, 0)) vf_witness("rint_fraction");
    FT r = k_rint(x);
    vf_assert(spec_rint(x, r), "rint(x): nearest integral value, ties to even (default rounding mode), sign kept");
    vf_assert(same(r, m_rint(x)), "rint(x) == libm model");
    vf_assert(same(r, m_nearbyint(x)), "rint(x) == libm nearbyint model");
#if !DBL
    vf_assert(same(k_rintf(x), r), "rintf(x) == rint(x)");
#endif
}
// lrint / llrint: the result is unspecified by ISO C when the rounded value is not representable -> assumed representable
Q q_lrint()
{
    FT x = nd();
    vf_assume(is_fin(x) && x >= -TWO63 && x < TWO63);
    VF_KNOWN(C16_lrint_ce_truncates, CE && trunc_ne_rint(x));
    if (mag(x) > 1 && !mult_pow2(x, 0)) vf_witness("lrint_fraction");
    long r = k_lrint(x);
    vf_assert(spec_lrint(x, r), "lrint(x): x rounded to nearest, ties to even");
    vf_assert(r == m_lrint(x), "lrint(x) == libm model");
#if !DBL
    vf_assert(k_lrintf(x) == r, "lrintf(x) == lrint(x)");
#endif
}
Q q_llrint()
{
    FT x = nd();
    vf_assume(is_fin(x) && x >= -TWO63 && x < TWO63);
    VF_KNOWN(C16_lrint_ce_truncates, CE && trunc_ne_rint(x));
    if (mag(x) > 1 && !mult_pow2(x, 0)) vf_witness("llrint_fraction");
    long long r = k_llrint(x);
    vf_assert(spec_lrint(x, r), "llrint(x): x rounded to nearest, ties to even");
    vf_assert(r == m_llrint(x), "llrint(x) == libm model");
#if !DBL
    vf_assert(k_llrintf(x) == r, "llrintf(x) == llrint(x)");
#endif
}

// ================================================================ sign manipulation
Q q_copysign()
{
    FT x = nd(), y = nd();
    VF_KNOWN(C16_copysign_ce_zero_nan, CE && !is_nan(x) && sgn(x) != sgn(y) && (is_zero(x) || is_zero(y) || is_nan(y)));
    if (sgn(x) != sgn(y) && !is_nan(x)) vf_witness("copysign_flips");
    FT r = k_copysign(x, y);
    vf_assert(spec_copysign(x, y, r), "copysign(x,y): magnitude of x with the sign bit of y");
    vf_assert(same(r, m_copysign(x, y)), "copysign(x,y) == libm model");
#if !DBL
    vf_assert(same(k_copysignf(x, y), r), "copysignf == copysign");
#endif
}
Q q_signbit()
{
    FT x = nd();
    VF_KNOWN(C16_signbit_poszero_negnan, bits(x) == 0 || (is_nan(x) && sgn(x)));   // CE=1 on every compiler; the same fallback is the run-time path under clang
    if (sgn(x)) vf_witness("signbit_set");
    vf_assert(k_signbit(x) == sgn(x), "signbit(x) == sign bit of x (zeros, infinities and NaNs included)");
}
Q q_fabs()
{
    FT x = nd();
    VF_KNOWN(C16_fabs_negzero, bits(x) == SIGN);
    if (sgn(x) && !is_nan(x)) vf_witness("fabs_negative");
    FT r = k_fabs(x);
    vf_assert(spec_fabs(x, r), "fabs(x): x with the sign bit cleared");
    vf_assert(same(r, m_fabs(x)), "fabs(x) == libm model");
    vf_assert(same(k_abs(x), r), "abs(x) == fabs(x)");
#if !DBL
    vf_assert(same(k_fabsf(x), r), "fabsf(x) == fabs(x)");
#endif
}

// ================================================================ fmin / fmax / fdim / nextafter
Q q_fmin()
{
    FT x = nd(), y = nd();
    VF_KNOWN(C16_fmin_nan_second, is_nan(y) && !is_snan(y) && !is_nan(x));
    if (is_nan(x) && !is_nan(y)) vf_witness("fmin_nan_first");
    FT r = k_fmin(x, y);
    vf_assert(spec_fmin(x, y, r), "fmin(x,y): the smaller value; a NaN argument is treated as missing");
    if (!(is_zero(x) && is_zero(y)) && !is_snan(x) && !is_snan(y)) vf_assert(same(r, m_fmin(x, y)), "fmin(x,y) == libm model");
#if !DBL
    vf_assert(same(k_fminf(x, y), r), "fminf == fmin");
#endif
}
Q q_fmax()
{
    FT x = nd(), y = nd();
    VF_KNOWN(C16_fmax_nan_second, is_nan(y) && !is_snan(y) && !is_nan(x));
    if (is_nan(x) && !is_nan(y)) vf_witness("fmax_nan_first");
    FT r = k_fmax(x, y);
    vf_assert(spec_fmax(x, y, r), "fmax(x,y): the larger value; a NaN argument is treated as missing");
    if (!(is_zero(x) && is_zero(y)) && !is_snan(x) && !is_snan(y)) vf_assert(same(r, m_fmax(x, y)), "fmax(x,y) == libm model");
#if !DBL
    vf_assert(same(k_fmaxf(x, y), r), "fmaxf == fmax");
#endif
}
Q q_fdim()
{
    FT x = nd(), y = nd();
    VF_KNOWN(C16_fdim_nan, is_nan(x) || is_nan(y));
    if (x > y) vf_witness("fdim_positive");
    FT r = k_fdim(x, y);
    vf_assert(spec_fdim(x, y, r), "fdim(x,y): x-y if x>y, +0 if x<=y, NaN if an argument is NaN");
#if !DBL
    vf_assert(same(k_fdimf(x, y), r), "fdimf == fdim");
#endif
}
Q q_nextafter()
{
    FT x = nd(), y = nd();
    VF_KNOWN(C16_nextafter_nan, is_nan(x) || is_nan(y));
    VF_KNOWN(C16_nextafter_sign, !is_nan(x) && !is_nan(y) && ((!sgn(x) && sgn(y)) || (bits(x) == SIGN && !sgn(y))));
    if (sgn(x) && x < y) vf_witness("nextafter_neg_up");
    FT r = k_nextafter(x, y);
    vf_assert(spec_nextafter(x, y, r), "nextafter(x,y): next representable value after x in the direction of y; y if x == y; NaN if an argument is NaN");
#if !DBL
    vf_assert(same(k_nextafterf(x, y), r), "nextafterf == nextafter");
#endif
}

// ================================================================ classification
Q q_classify()
{
    FT x = nd();
    if (is_nan(x)) vf_witness("classify_nan");
    vf_assert(k_isnan(x) == is_nan(x), "isnan(x)");
    vf_assert(k_isinf(x) == is_inf(x), "isinf(x)");
    vf_assert(k_isfinite(x) == is_fin(x), "isfinite(x)");
}

// ================================================================ fmod / remainder: special cases (ISO C F.10.7.1/.2) and the integer-valued subdomain
Q q_fmod_special()
{
    FT x = nd(), y = nd();
    vf_assume(mod_special(x, y));
    VF_KNOWN(C16_fmod_inf_divisor, is_fin(x) && is_inf(y));
    VF_KNOWN(C16_fmod_negzero, bits(x) == SIGN && is_fin(y) && !is_zero(y));
    if (is_zero(x) && is_fin(y)) vf_witness("fmod_zero_dividend");
    FT r = k_fmod(x, y);
    vf_assert(spec_mod_special(x, y, r), "fmod: NaN for NaN / infinite x / zero y; x for infinite y or zero x");
#if !DBL
    vf_assert(same(k_fmodf(x, y), r), "fmodf == fmod");
#endif
}
Q q_remainder_special()
{
    FT x = nd(), y = nd();
    vf_assume(mod_special(x, y));
    VF_KNOWN(C16_fmod_inf_divisor, is_fin(x) && is_inf(y));
    VF_KNOWN(C16_fmod_negzero, bits(x) == SIGN && is_fin(y) && !is_zero(y));
    if (is_zero(x) && is_fin(y)) vf_witness("remainder_zero_dividend");
    FT r = k_remainder(x, y);
    vf_assert(spec_mod_special(x, y, r), "remainder: NaN for NaN / infinite x / zero y; x for infinite y or zero x");
#if !DBL
    vf_assert(same(k_remainderf(x, y), r), "remainderf == remainder");
#endif
}
// integer-valued arguments below 2^ILIM in magnitude: the exact quotient is an integer computation
#ifndef ILIM
#define ILIM 10
#endif
static bool small_int(FT x) { return is_fin(x) && mult_pow2(x, 0) && mag(x) < FT(1 << ILIM); }
Q q_fmod_int()
{
    FT x = nd(), y = nd();
    vf_assume(small_int(x) && small_int(y) && !is_zero(y));
    int xi = int(x), yi = int(y);
    int ri = xi % yi; // C: truncated division, sign of the dividend = fmod
    VF_KNOWN(C16_fmod_negzero, sgn(x) && ri == 0);   // negative dividend, zero result: the sign of the zero is lost
    if (ri != 0) vf_witness("fmod_int_nonzero");
    FT e = ri == 0 ? fromb(bits(x) & SIGN) : FT(ri);
    vf_assert(bits(k_fmod(x, y)) == bits(e), "fmod(x,y) for integer-valued x,y: x - trunc(x/y)*y exactly, zero result with the sign of x");
}
Q q_remainder_int()
{
    FT x = nd(), y = nd();
    vf_assume(small_int(x) && small_int(y) && !is_zero(y));
    int xi = int(x), yi = int(y);
    int ri = rem_int(xi, yi);
    VF_KNOWN(C16_remainder_is_fmod, ri != xi % yi);
    VF_KNOWN(C16_fmod_negzero, sgn(x) && ri == 0);
    if (ri != 0) vf_witness("remainder_int_nonzero");
    FT e = ri == 0 ? fromb(bits(x) & SIGN) : FT(ri);
    vf_assert(bits(k_remainder(x, y)) == bits(e), "remainder(x,y) for integer-valued x,y: x - n*y, n = x/y rounded to nearest (ties to even), zero result with the sign of x");
}
// C02 only: finite arguments with a quotient inside the long long range (|x| < 2^40, |y| > 2^-20), no functional claim
// (fmod/remainder in general are outside C16, DESIGN.md). Larger quotients reach the undefined cast of gcem::trunc
// (known finding C16_trunc_huge, confirmed on q_trunc, e.g. fmod(1e30f, 1.0f)).
Q q_fmod_any()
{
    FT x = nd(), y = nd();
    vf_assume(is_fin(x) && is_fin(y) && mag(x) < FT(1099511627776.0) && mag(y) > FT(1.0 / 1048576.0));
    if (mag(x) > mag(y)) vf_witness("fmod_any_quotient");
    (void)k_fmod(x, y);
}

// ================================================================ lerp / hypot / midpoint: documented special cases
Q q_lerp_ends()
{
    FT a = nd(), b = nd();
    vf_assume(is_fin(a) && is_fin(b));
    if (a != b) vf_witness("lerp_distinct");
    vf_assert(k_lerp(a, b, FT(0)) == a, "lerp(a,b,0) == a for finite a,b");
    vf_assert(k_lerp(a, b, FT(1)) == b, "lerp(a,b,1) == b for finite a,b");
}
Q q_lerp_same()
{
    FT a = nd(), t = nd();
    vf_assume(is_fin(a) && is_fin(t));
    vf_assert(k_lerp(a, a, t) == a, "lerp(a,a,t) == a for finite a,t");
}
// std::lerp / std::midpoint in functions with the kernel's signature: identical operand order in the IR, so an SMT back end
// can identify the library's terms with the oracle's (no vf_witness here: these two run on the SMT route)
static NOINL FT o_lerp(FT a, FT b, FT t) { return std::lerp(a, b, t); }
static NOINL FT o_midpoint(FT a, FT b) { return std::midpoint(a, b); }
Q q_lerp_std()
{
    FT a = nd(), b = nd(), t = nd();
    vf_assert(same(k_lerp(a, b, t), o_lerp(a, b, t)), "lerp(a,b,t) == std::lerp bit for bit");
}
Q q_hypot_special()
{
    FT x = nd(), y = nd();
    vf_assume(!is_fin(x) || !is_fin(y));
    if (is_nan(x) && is_inf(y)) vf_witness("hypot_nan_inf");
    FT r = k_hypot(x, y);
    FT e = (is_inf(x) || is_inf(y)) ? fromb(EXPM) : fromb(EXPM | (UT(1) << (MB - 1)));
    vf_assert(same(r, e), "hypot(x,y): +inf if an argument is infinite (even if the other is NaN), else NaN if an argument is NaN");
#if !DBL
    vf_assert(same(k_hypotf(x, y), r), "hypotf == hypot");
#endif
}
Q q_hypot3_special()
{
    FT x = nd(), y = nd(), z = nd();
    vf_assume(!is_fin(x) || !is_fin(y) || !is_fin(z));
    if (is_nan(x) && is_inf(z)) vf_witness("hypot3_nan_inf");
    FT r = k_hypot3(x, y, z);
    FT e = (is_inf(x) || is_inf(y) || is_inf(z)) ? fromb(EXPM) : fromb(EXPM | (UT(1) << (MB - 1)));
    vf_assert(same(r, e), "hypot(x,y,z): +inf if an argument is infinite, else NaN if an argument is NaN");
}
Q q_midpoint_fp()
{
    FT a = nd(), b = nd();
    vf_assert(same(k_midpoint(a, b), o_midpoint(a, b)), "midpoint(a,b) == std::midpoint bit for bit");
}
Q q_midpoint_fp_props()
{
    FT a = nd(), b = nd();
    vf_assume(is_fin(a) && is_fin(b));
    if (mag(a) > std::numeric_limits<FT>::max() / 2) vf_witness("midpoint_large");
    FT r = k_midpoint(a, b);
    vf_assert(is_fin(r), "midpoint of finite values does not overflow");
    vf_assert((a <= r && r <= b) || (b <= r && r <= a), "midpoint lies between a and b");
    vf_assert(a != b || r == a, "midpoint(a,a) == a");
}
Q q_midpoint_int()
{
    { int8_t a = int8_t(vf_nd_u8()), b = int8_t(vf_nd_u8()); vf_assert(k_midpoint_i8(a, b) == std::midpoint(a, b), "midpoint(int8) == std"); }
    { uint8_t a = vf_nd_u8(), b = vf_nd_u8(); vf_assert(k_midpoint_u8(a, b) == std::midpoint(a, b), "midpoint(uint8) == std"); }
    { int16_t a = int16_t(vf_nd_u16()), b = int16_t(vf_nd_u16()); vf_assert(k_midpoint_i16(a, b) == std::midpoint(a, b), "midpoint(int16) == std"); }
    { uint16_t a = vf_nd_u16(), b = vf_nd_u16(); vf_assert(k_midpoint_u16(a, b) == std::midpoint(a, b), "midpoint(uint16) == std"); }
    { int32_t a = vf_nd_i32(), b = vf_nd_i32(); vf_assert(k_midpoint_i32(a, b) == std::midpoint(a, b), "midpoint(int32) == std"); }
    { uint32_t a = vf_nd_u32(), b = vf_nd_u32(); vf_assert(k_midpoint_u32(a, b) == std::midpoint(a, b), "midpoint(uint32) == std"); }
    { int64_t a = vf_nd_i64(), b = vf_nd_i64(); vf_assert(k_midpoint_i64(a, b) == std::midpoint(a, b), "midpoint(int64) == std"); }
    { uint64_t a = vf_nd_u64(), b = vf_nd_u64(); vf_assert(k_midpoint_u64(a, b) == std::midpoint(a, b), "midpoint(uint64) == std"); }
}
// ================================================================ integral overloads, numeric_limits, macros
Q q_int_overloads()
{
    int v = vf_nd_i32();
    double e = double(v);
    if (v < -5) vf_witness("int_negative");
    vf_assert(__builtin_bit_cast(uint64_t, k_floor_i(v)) == __builtin_bit_cast(uint64_t, e), "floor(int) == double(int)");
    vf_assert(__builtin_bit_cast(uint64_t, k_ceil_i(v)) == __builtin_bit_cast(uint64_t, e), "ceil(int) == double(int)");
    vf_assert(__builtin_bit_cast(uint64_t, k_trunc_i(v)) == __builtin_bit_cast(uint64_t, e), "trunc(int) == double(int)");
    vf_assert(__builtin_bit_cast(uint64_t, k_round_i(v)) == __builtin_bit_cast(uint64_t, e), "round(int) == double(int)");
    vf_assert(__builtin_bit_cast(uint64_t, k_rint_i(v)) == __builtin_bit_cast(uint64_t, e), "rint(int) == double(int)");
    vf_assert(k_lrint_i(v) == v && k_llrint_i(v) == v, "lrint(int) == llrint(int) == int");
    vf_assert(!k_isnan_i(v) && !k_isinf_i(v), "isnan(int), isinf(int) are false");
}
Q q_limits()
{
    using L = std::numeric_limits<FT>;
    int sel = int(vf_nd_u8());   // symbolic selector so that the kernel switch is really executed
    vf_assume(sel < 8);
    VF_KNOWN(C16_limits_denorm_min, sel == 6);
    FT e = sel == 0 ? L::min() : sel == 1 ? L::max() : sel == 2 ? L::lowest() : sel == 3 ? L::epsilon() : sel == 4 ? L::infinity() : sel == 5 ? L::quiet_NaN() : sel == 6 ? L::denorm_min() : L::round_error();
    vf_assert(same(k_limit(sel), e), "numeric_limits<FT>::{min,max,lowest,epsilon,infinity,quiet_NaN,denorm_min,round_error} == std");
    FT sn = k_limit(8);
    vf_assert(is_nan(sn), "signaling_NaN() is a NaN");
    int ms = int(vf_nd_u8());
    vf_assume(ms < 4);
    double m = k_macro(ms);
    vf_assert(ms == 3 ? m != m : (m == std::numeric_limits<double>::infinity()), "HUGE_VALF / HUGE_VAL / INFINITY are +inf, NAN is a NaN");
}

// ================================================================ CBMC libm models against glibc on boundary inputs (table from mk_table.py)
static NOINL void chk_u1(UT x, UT e_floor, UT e_ceil, UT e_trunc, UT e_round, UT e_rint, UT e_nearbyint, UT e_fabs, int inrange, long long e_lrint, long long e_llrint)
{
    FT v = fromb(x);
    vf_assert(same(m_floor(v), fromb(e_floor)), "CBMC floor model == glibc");
    vf_assert(same(m_ceil(v), fromb(e_ceil)), "CBMC ceil model == glibc");
    vf_assert(same(m_trunc(v), fromb(e_trunc)), "CBMC trunc model == glibc");
    vf_assert(same(m_round(v), fromb(e_round)), "CBMC round model == glibc");
    vf_assert(same(m_rint(v), fromb(e_rint)), "CBMC rint model == glibc");
    vf_assert(same(m_nearbyint(v), fromb(e_nearbyint)), "CBMC nearbyint model == glibc");
    vf_assert(same(m_fabs(v), fromb(e_fabs)), "CBMC fabs model == glibc");
    if (inrange) {
        vf_assert(m_lrint(v) == e_lrint, "CBMC lrint model == glibc");
        vf_assert(m_llrint(v) == e_llrint, "CBMC llrint model == glibc");
    }
    // the predicates must accept glibc's answers as well (oracle cross-check on the same rows)
    vf_assert(spec_floor(v, fromb(e_floor)) && spec_ceil(v, fromb(e_ceil)) && spec_trunc(v, fromb(e_trunc)) && spec_round(v, fromb(e_round)) && spec_rint(v, fromb(e_rint)) && spec_fabs(v, fromb(e_fabs)),
              "IEEE predicates accept glibc's results");
    if (inrange) vf_assert(spec_lrint(v, e_lrint) && spec_lrint(v, e_llrint), "lrint predicate accepts glibc's result");
}
static NOINL void chk_b2(UT x, UT y, UT e_copysign, UT e_fmin, UT e_fmax, int minmax_ok)
{
    FT a = fromb(x), b = fromb(y);
    vf_assert(same(m_copysign(a, b), fromb(e_copysign)), "CBMC copysign model == glibc");
    if (minmax_ok) {
        vf_assert(same(m_fmin(a, b), fromb(e_fmin)), "CBMC fmin model == glibc");
        vf_assert(same(m_fmax(a, b), fromb(e_fmax)), "CBMC fmax model == glibc");
    }
    vf_assert(spec_copysign(a, b, fromb(e_copysign)) && spec_fmin(a, b, fromb(e_fmin)) && spec_fmax(a, b, fromb(e_fmax)), "IEEE predicates accept glibc's results");
}
Q q_model_table()
{
#if DBL
#define U1(...)
#define B2(...)
#define U1D(...) chk_u1(__VA_ARGS__);
#define B2D(...) chk_b2(__VA_ARGS__);
#else
#define U1(...) chk_u1(__VA_ARGS__);
#define B2(...) chk_b2(__VA_ARGS__);
#define U1D(...)
#define B2D(...)
#endif
#include "libm_table.inc"
}
