"""C16 exact-result <cmath> functions (gcem / portable constant-evaluation path and the run-time path as clang compiles it),
float in quick, float + double in thorough. Also serves C02 with the UB build of the same queries."""
import importlib.util
import os

PROPERTIES = ['C16', 'C02']
HERE = os.path.dirname(os.path.abspath(__file__))

BOUNDS = {
    'quick': ('float: EVERY bit pattern of every argument (one query per function, all 2^64 pairs for binary functions) for floor, ceil, trunc, round, rint, lrint, llrint '
              '(+ the f-suffixed names), copysign, signbit, fabs/abs, fmin, fmax, fdim, nextafter, isnan, isinf, isfinite; constant-evaluation path (CE=1) for all, '
              'run-time path as clang compiles it (CE=0) additionally for the functions that dispatch on is_constant_evaluated(). fmod/remainder: all special cases (a NaN, an infinity or a zero among the arguments) '
              'and integer-valued arguments (|x|,|y| < 2^10 fmod, < 2^8 remainder). lerp: exact endpoints and a==b for all finite floats, lerp == std::lerp bit for bit for all triples; '
              'hypot (2 and 3 arguments): all combinations with a non-finite argument; midpoint: float == std::midpoint bit for bit for all pairs + no overflow / betweenness; all 8 integer widths == std::midpoint for all pairs; '
              'integral overloads for all int; numeric_limits<float> constants and the HUGE_VAL/INFINITY/NAN macros; CBMC libm models and the IEEE definitions vs glibc on 194 unary + 196 binary boundary rows. '
              'double (CE=1): floor, ceil, trunc, round, rint, signbit, fabs, classification for all 2^64 bit patterns.'),
    'thorough': ('as quick, plus double for every entry (all 2^64 bit patterns / 2^128 pairs / 2^192 triples), integer-valued fmod |x|,|y| < 2^12 and remainder < 2^10 for float and double, double model table (202 + 196 rows)'),
}
ASSUMPTIONS = [
    'C16: a NaN result is compared by NaN-ness only (sign and payload of a NaN result are not compared); every other result bit for bit',
    'C16: fmin/fmax: two cases that ISO C leaves open accept either answer - zeros of opposite sign (glibc returns the second argument, CBMC\'s model the first) and a signalling NaN argument (glibc returns NaN, treating it like a quiet NaN is accepted too)',
    'C16: lrint/llrint: arguments whose rounded value is not representable in long (x < -2^63, x >= 2^63, NaN, inf) are excluded - ISO C leaves the result unspecified there',
    'C16: default rounding mode (round to nearest even) - rint/lrint are not exercised under other modes; floating-point exceptions / errno are not observed',
    'C16: CE=1 is obtained with `#define __builtin_is_constant_evaluated() true` in the kernel TU, i.e. the constant-evaluation branch is executed at run time (the code a constexpr evaluation runs)',
    'C16: the oracle is ieee_ref.h: each function defined from the bit pattern (integer part / fraction class read off the mantissa, no rounding). model_check.cpp validates it natively against glibc 2.36: '
    'all 2^32 floats for floor/ceil/trunc/round/rint/nearbyint/fabs/lrint/llrint/classification, 73 million double comparisons (every exponent x boundary mantissas, random), binary functions on a boundary grid squared + random pairs, '
    'fmod/remainder special cases and the integer oracle for all |x|,|y| < 2^10: 0 mismatches (run by hand, ~5 min; not part of ./vf check)',
    'C16: second oracle = CBMC 6.11 libm models (floor, ceil, trunc, round, rint, nearbyint, fabs, copysign, fmin, fmax, lrint, llrint); q_model_table checks each against glibc on boundary rows '
    '(mk_table.py regenerates the rows from libm.so.6; spec.py verifies the stored table against glibc through ctypes on every run). Dropped models: fdim (returns +0 for NaN arguments), fmod (returns 0), '
    'remainder (ignored by the SAT back end); nextafter has none. For those ieee_ref.h is the only oracle.',
    'C16: fmod/remainder for general arguments are outside the claim (exact real quotient not expressible, DESIGN.md); decided only: special cases and integer-valued arguments below the stated bound. '
    'sqrt/exp/log/pow/trigonometric/hyperbolic/erf/gamma functions and <complex> are outside the claim (not encodable); hypot beyond its NaN/inf rules likewise; fma is not part of the property. '
    'lerp/midpoint: libstdc++ (std::lerp / std::midpoint through the same pipeline, decided by cvc5) is the oracle.',
    'C16: fmuladd is translated unfused (x86-64 without FMA, as the native g++ build); long double overloads are outside the claim (translator has no x86_fp80)',
    'C02 (this family): same queries with the UB-instrumented kernel (float-cast-overflow etc.); q_fmod_any (finite x, y with |x| < 2^40, |y| > 2^-20) has no functional claim and covers the division/cast path of gcem::fmod; '
    'larger quotients reach the undefined cast recorded as C16_trunc_huge',
]

UNARY = ['q_floor', 'q_ceil', 'q_trunc', 'q_round', 'q_rint', 'q_lrint', 'q_llrint', 'q_signbit', 'q_fabs', 'q_classify']
BINARY = ['q_copysign', 'q_fmin', 'q_fmax', 'q_fdim', 'q_nextafter']
DISPATCH = ['q_floor', 'q_trunc', 'q_round', 'q_rint', 'q_lrint', 'q_llrint', 'q_copysign', 'q_signbit']   # entries whose functions branch on is_constant_evaluated()
SPECIAL = ['q_fmod_special', 'q_remainder_special', 'q_fmod_int', 'q_remainder_int', 'q_lerp_ends', 'q_lerp_same', 'q_lerp_std', 'q_hypot_special', 'q_hypot3_special',
           'q_midpoint_fp', 'q_midpoint_fp_props', 'q_limits']
ONCE = ['q_midpoint_int', 'q_int_overloads']   # independent of FT
DOUBLE_QUICK = ['q_floor', 'q_ceil', 'q_trunc', 'q_round', 'q_rint', 'q_signbit', 'q_fabs', 'q_classify']

_table_checked = {}


def _check_table():
    """the stored glibc reference rows must equal what glibc computes now (cheap: ~800 rows, libm calls through ctypes);
    returns a list of problems (empty = table verified)"""
    if 'r' not in _table_checked:
        try:
            spec = importlib.util.spec_from_file_location('cmath_exact_mk_table', os.path.join(HERE, 'mk_table.py'))
            m = importlib.util.module_from_spec(spec)
            spec.loader.exec_module(m)
            _table_checked['r'] = m.verify()[1]
        except Exception as ex:   # no libm.so.6 / ctypes: the table cannot be verified on this machine
            _table_checked['r'] = ['cannot verify libm_table.inc against glibc: %r' % (ex,)]
    return _table_checked['r']


def queries(tier, prop='C16'):
    ub = prop == 'C02'
    out = []
    bad = _check_table()
    if bad and not ub:
        # reported by the runner as a check error ("entry ... not in driver"): the reference rows are not glibc's
        print('cmath_exact: libm_table.inc disagrees with glibc on this machine: ' + '; '.join(bad)[:600])
        out.append(dict(entry='q_libm_table_inc_disagrees_with_glibc', cfg={'FT': 'float', 'DBL': 0, 'CE': 1}, unwind=2))

    def add(entry, dbl, ce, budget=120, solver='cadical', unwind=4, **extra):
        cfg = {'FT': 'double' if dbl else 'float', 'DBL': int(dbl), 'CE': ce}
        cfg.update(extra.pop('cfg', {}))
        out.append(dict(entry=entry, cfg=cfg, unwind=unwind, solver=solver, budget=budget, ub=ub, nofunc=ub, **extra))

    ilim = {'q_fmod_int': 10 if tier == 'quick' else 12, 'q_remainder_int': 8 if tier == 'quick' else 10}   # remainder: two fmod calls once C16_remainder_is_fmod is repaired (measured 84 s at 2^10)
    for dbl in (False, True):
        if dbl and tier == 'quick':
            for e in DOUBLE_QUICK:
                add(e, True, 1)
            continue
        for e in UNARY + BINARY:
            add(e, dbl, 1)
        for e in DISPATCH:
            add(e, dbl, 0)
        for e in SPECIAL:
            if e in ('q_fmod_int', 'q_remainder_int'):
                add(e, dbl, 1, cfg={'ILIM': ilim[e]}, solver='kissat', budget=120 if tier == 'quick' else 900)
            else:
                add(e, dbl, 1, solver=['cvc5', 'kissat'] if e in ('q_lerp_std', 'q_midpoint_fp') else 'kissat' if e in ('q_lerp_same', 'q_lerp_ends') else 'cadical')
        if not ub:
            add('q_model_table', dbl, 1, budget=300)
        else:
            add('q_fmod_any', dbl, 1, solver='kissat')
    for e in ONCE:
        add(e, False, 1)
    return out
