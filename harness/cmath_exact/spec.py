"""C16 exact-result <cmath> functions (gcem / portable constant-evaluation path and the run-time path as clang compiles it),
float in quick, float + double in thorough. Also serves C02 with the UB build of the same queries."""
import importlib.util
import os

PROPERTIES = ['C16', 'C02']
HERE = os.path.dirname(os.path.abspath(__file__))

BOUNDS = {
    'quick': ('float: EVERY bit pattern of every argument (one query per function, all pairs for binary functions) for floor, ceil, trunc, round, rint, lrint, llrint '
              '(+ the f-suffixed names), copysign, signbit, fabs/abs, fmin, fmax, fdim, nextafter, isnan, isinf, isfinite; constant-evaluation path (CE=1) for all, '
              'run-time path (CE=0, clang) additionally for the functions that dispatch on is_constant_evaluated(). fmod/remainder: all special cases (NaN, infinities, zeros) '
              'and integer-valued arguments |x|,|y| < 2^10. lerp: exact endpoints and a==b for all finite floats, lerp == std::lerp bit for bit; hypot (2 and 3 arguments): all non-finite argument combinations; '
              'midpoint: float == std::midpoint bit for bit + overflow/betweenness, all 8 integer widths == std::midpoint for all pairs; integral overloads for all int; numeric_limits<float> constants; '
              'CBMC libm models vs glibc on 912 unary + 324 binary boundary rows. double: floor, ceil, trunc, round, rint, signbit, fabs, classification (all bit patterns, CE=1).'),
    'thorough': ('as quick, plus double for every entry (all 2^64 / 2^128 bit patterns; integer-valued fmod/remainder |x|,|y| < 2^12 for float and double), double model table (1612 + 324 rows)'),
}
ASSUMPTIONS = [
    'C16: a NaN result is compared by NaN-ness only (sign and payload of a NaN result are not compared); every other result bit for bit',
    'C16: fmin/fmax of two zeros with opposite signs: either zero is accepted (ISO C leaves it open; glibc returns the second argument, CBMC\'s model the first)',
    'C16: lrint/llrint: arguments whose rounded value is not representable in long (|x| >= 2^63, NaN, inf) are excluded - ISO C leaves the result unspecified there',
    'C16: default rounding mode (round to nearest even) - rint/lrint are not exercised under other modes; floating-point exceptions / errno are not observed',
    'C16: CE=1 is obtained with `#define __builtin_is_constant_evaluated() true` in the kernel TU, i.e. the constant-evaluation branch is executed at run time (same code a constexpr evaluation runs)',
    'C16: fmod/remainder for general arguments are outside the claim (exact real quotient not expressible, DESIGN.md); decided only: special cases and integer-valued arguments below the stated bound. '
    'sqrt/exp/log/pow/trigonometric/hyperbolic/erf/gamma functions and <complex> are outside the claim (not encodable); hypot beyond its NaN/inf rules likewise. fma is not part of the property.',
    'C16: second oracle = CBMC 6.11 libm models (floor, ceil, trunc, round, rint, nearbyint, fabs, copysign, fmin, fmax, lrint, llrint); each is checked in q_model_table against glibc 2.36 on boundary rows '
    '(mk_table.py regenerates the rows from libm.so.6 and spec.py verifies the stored table against glibc on every run). Dropped models: fdim (returns +0 for NaN arguments), fmod (returns 0), remainder (ignored by the SAT back end); '
    'nextafter has no model. For those the IEEE predicate is the only oracle.',
    'C16: fmuladd is translated unfused (x86-64 without FMA, as the native g++ build); long double overloads are outside the claim (translator)',
    'C02 (this family): same queries with the UB-instrumented kernel; q_fmod_any (all finite x, y != 0) has no functional claim and exists for the float-cast-overflow check inside gcem::trunc',
]

UNARY = ['q_floor', 'q_ceil', 'q_trunc', 'q_round', 'q_rint', 'q_lrint', 'q_llrint', 'q_signbit', 'q_fabs', 'q_classify']
BINARY = ['q_copysign', 'q_fmin', 'q_fmax', 'q_fdim', 'q_nextafter']
DISPATCH = ['q_floor', 'q_trunc', 'q_round', 'q_rint', 'q_lrint', 'q_llrint', 'q_copysign', 'q_signbit']   # entries whose functions branch on is_constant_evaluated()
SPECIAL = ['q_fmod_special', 'q_remainder_special', 'q_fmod_int', 'q_remainder_int', 'q_lerp_ends', 'q_lerp_same', 'q_lerp_std', 'q_hypot_special', 'q_hypot3_special',
           'q_midpoint_fp', 'q_midpoint_fp_props', 'q_limits']
ONCE = ['q_midpoint_int', 'q_int_overloads']   # independent of FT
DOUBLE_QUICK = ['q_floor', 'q_ceil', 'q_trunc', 'q_round', 'q_rint', 'q_signbit', 'q_fabs', 'q_classify']

_table_checked = {}


def _check_table():
    """the stored glibc reference rows must equal what glibc computes now (cheap: ~3000 libm calls through ctypes)"""
    if 'r' not in _table_checked:
        spec = importlib.util.spec_from_file_location('cmath_exact_mk_table', os.path.join(HERE, 'mk_table.py'))
        m = importlib.util.module_from_spec(spec)
        spec.loader.exec_module(m)
        _table_checked['r'] = m.verify()
    n, bad = _table_checked['r']
    if bad:
        raise RuntimeError('cmath_exact: libm_table.inc disagrees with glibc on this machine: %s' % '; '.join(bad))
    return n


def queries(tier, prop='C16'):
    _check_table()
    ub = prop == 'C02'
    out = []

    def add(entry, dbl, ce, budget=120, solver='cadical', unwind=4, **extra):
        cfg = {'FT': 'double' if dbl else 'float', 'DBL': int(dbl), 'CE': ce}
        cfg.update(extra.pop('cfg', {}))
        out.append(dict(entry=entry, cfg=cfg, unwind=unwind, solver=solver, budget=budget, ub=ub, nofunc=ub, **extra))

    ilim = 10 if tier == 'quick' else 12
    for dbl in (False, True):
        if dbl and tier == 'quick':
            for e in DOUBLE_QUICK:
                add(e, True, 1)
            continue
        for e in UNARY + BINARY:
            add(e, dbl, 1)
        for e in DISPATCH:
            add(e, dbl, 0)
        for e in SPECIAL:
            if e in ('q_fmod_int', 'q_remainder_int'):
                add(e, dbl, 1, cfg={'ILIM': ilim}, solver='kissat')
            else:
                add(e, dbl, 1, solver=['cvc5', 'kissat'] if e in ('q_lerp_std', 'q_midpoint_fp') else 'kissat' if e in ('q_lerp_same', 'q_lerp_ends') else 'cadical')
        if not ub:
            add('q_model_table', dbl, 1, budget=300)
        else:
            add('q_fmod_any', dbl, 1, solver='kissat')
    for e in ONCE:
        add(e, False, 1)
    return out
