// Native validation of the hand-written oracle ieee_ref.h against glibc (DESIGN.md 1.7(3)); not part of any verdict.
//   g++ -std=c++20 -O2 -fno-builtin -DDBL=0 model_check.cpp -o mc_f -lm && ./mc_f        (all 2^32 floats, ~1-2 min)
//   g++ -std=c++20 -O2 -fno-builtin -DDBL=1 model_check.cpp -o mc_d -lm && ./mc_d        (doubles: exponent x mantissa boundary grid + random)
// unary: floor ceil trunc round rint nearbyint fabs lrint llrint; binary: copysign fmin fmax fdim nextafter on a boundary grid
// x grid and seeded random pairs; fmod/remainder: special-case rule and the integer oracle for all |x|,|y| < 2^10.
#include <stdint.h>
#include <stdio.h>
#include <stdlib.h>
#include <cmath>
#include <limits>
#ifndef DBL
#define DBL 0
#endif
#if DBL
#define FT double
typedef uint64_t UT;
#define MB 52
#define EB 11
#else
#define FT float
typedef uint32_t UT;
#define MB 23
#define EB 8
#endif
#include "ieee_ref.h"

static unsigned long long bad = 0, n = 0;
#define CHECK(c, what, ...)                                                                                            \
    do {                                                                                                               \
        n++;                                                                                                           \
        if (!(c)) {                                                                                                    \
            if (bad++ < 20) { printf("MISMATCH %s: ", what); printf(__VA_ARGS__); printf("\n"); }                      \
        }                                                                                                              \
    } while (0)

static void unary(UT b)
{
    FT x = fromb(b);
    CHECK(spec_floor(x, std::floor(x)), "floor", "%llx", (unsigned long long)b);
    CHECK(spec_ceil(x, std::ceil(x)), "ceil", "%llx", (unsigned long long)b);
    CHECK(spec_trunc(x, std::trunc(x)), "trunc", "%llx", (unsigned long long)b);
    CHECK(spec_round(x, std::round(x)), "round", "%llx", (unsigned long long)b);
    CHECK(spec_rint(x, std::rint(x)), "rint", "%llx", (unsigned long long)b);
    CHECK(spec_rint(x, std::nearbyint(x)), "nearbyint", "%llx", (unsigned long long)b);
    CHECK(spec_fabs(x, std::fabs(x)), "fabs", "%llx", (unsigned long long)b);
    CHECK(std::signbit(x) == sgn(x) && std::isnan(x) == is_nan(x) && std::isinf(x) == is_inf(x) && std::isfinite(x) == is_fin(x), "classify", "%llx", (unsigned long long)b);
    if (is_fin(x) && x >= -TWO63 && x < TWO63) {
        CHECK(spec_lrint(x, std::lrint(x)), "lrint", "%llx", (unsigned long long)b);
        CHECK(spec_lrint(x, std::llrint(x)), "llrint", "%llx", (unsigned long long)b);
    }
}
static void binary(UT a, UT c)
{
    FT x = fromb(a), y = fromb(c);
    CHECK(spec_copysign(x, y, std::copysign(x, y)), "copysign", "%llx %llx", (unsigned long long)a, (unsigned long long)c);
    CHECK(spec_fmin(x, y, std::fmin(x, y)), "fmin", "%llx %llx", (unsigned long long)a, (unsigned long long)c);
    CHECK(spec_fmax(x, y, std::fmax(x, y)), "fmax", "%llx %llx", (unsigned long long)a, (unsigned long long)c);
    CHECK(spec_fdim(x, y, std::fdim(x, y)), "fdim", "%llx %llx", (unsigned long long)a, (unsigned long long)c);
    CHECK(spec_nextafter(x, y, std::nextafter(x, y)), "nextafter", "%llx %llx", (unsigned long long)a, (unsigned long long)c);
    if (mod_special(x, y)) {
        CHECK(spec_mod_special(x, y, std::fmod(x, y)), "fmod special", "%llx %llx", (unsigned long long)a, (unsigned long long)c);
        CHECK(spec_mod_special(x, y, std::remainder(x, y)), "remainder special", "%llx %llx", (unsigned long long)a, (unsigned long long)c);
    }
}
static uint64_t rs = 88172645463325252ull;
static uint64_t rnd() { rs ^= rs << 13; rs ^= rs >> 7; rs ^= rs << 17; return rs; }

int main()
{
#if !DBL
    for (uint64_t b = 0; b < (1ull << 32); b++) unary(UT(b));
#endif
    // boundary grid: every exponent x boundary mantissas (both signs)
    static UT grid[2 * ((1 << EB) * 8)];
    int g = 0;
    for (unsigned e = 0; e < (1u << EB); e++) {
        UT fr[8] = {0, 1, 2, FRACM, FRACM - 1, UT(1) << (MB - 1), (UT(1) << (MB - 1)) - 1, (UT(1) << (MB - 1)) + 1};
        for (UT f : fr) { grid[g++] = (UT(e) << MB) | f; grid[g++] = SIGN | (UT(e) << MB) | f; }
    }
    for (int i = 0; i < g; i++) unary(grid[i]);
    for (int i = 0; i < 4000000; i++) unary(UT(rnd()));
    // binary: a coarser grid (every 4th exponent for float, every 32nd for double) squared + random pairs + grid x random
    int step = DBL ? 32 * 16 : 4 * 16;
    for (int i = 0; i < g; i += step / 16)
        for (int j = 0; j < g; j += step / 16) binary(grid[i], grid[j]);
    for (int i = 0; i < 4000000; i++) binary(UT(rnd()), UT(rnd()));
    for (int i = 0; i < g; i++)
        for (int k = 0; k < 8; k++) { UT r = UT(rnd()); binary(grid[i], r); binary(r, grid[i]); }
    // neighbours: nextafter / fmin / fmax between adjacent bit patterns
    for (int i = 0; i < g; i++) { binary(grid[i], grid[i] + 1); binary(grid[i], grid[i] - 1); binary(grid[i], grid[i] ^ SIGN); }
    // integer oracle of fmod / remainder
    for (int xi = -1023; xi <= 1023; xi++)
        for (int yi = -1023; yi <= 1023; yi++) {
            if (yi == 0) continue;
            FT x = FT(xi), y = FT(yi);
            int fm = xi % yi, rm = rem_int(xi, yi);
            FT ef = fm == 0 ? fromb(bits(x) & SIGN) : FT(fm), er = rm == 0 ? fromb(bits(x) & SIGN) : FT(rm);
            CHECK(bits(std::fmod(x, y)) == bits(ef), "fmod int", "%d %d", xi, yi);
            CHECK(bits(std::remainder(x, y)) == bits(er), "remainder int", "%d %d", xi, yi);
        }
    // -0 dividends
    for (int yi = -1023; yi <= 1023; yi++)
        if (yi) { FT x = fromb(SIGN), y = FT(yi); CHECK(bits(std::fmod(x, y)) == SIGN && bits(std::remainder(x, y)) == SIGN, "mod -0", "%d", yi); }
    printf("%s: %llu comparisons, %llu mismatches\n", DBL ? "double" : "float", n, bad);
    return bad != 0;
}
