// Bit-level view of FT (float / double) and the IEEE-754 / ISO C definitions of the exact <cmath> functions, computed from
// bit patterns without any rounding. Shared by driver.cpp (oracle of the solver queries) and model_check.cpp (native
// validation against glibc: all 2^32 floats for the unary functions, boundary grid x random for the others).
// Expects FT, UT, MB, EB to be defined by the including file.
#ifndef C16_IEEE_REF_H
#define C16_IEEE_REF_H
#ifndef NOINL
#define NOINL __attribute__((noinline))
#endif
// ---------------------------------------------------------------- bit-level view of FT
static constexpr UT SIGN = UT(1) << (MB + EB);
static constexpr UT FRACM = (UT(1) << MB) - 1;
static constexpr UT EXPM = ((UT(1) << EB) - 1) << MB;
static constexpr int BIAS = (1 << (EB - 1)) - 1;
static UT bits(FT x) { return __builtin_bit_cast(UT, x); }
static FT fromb(UT b) { return __builtin_bit_cast(FT, b); }
static bool is_nan(FT x) { UT b = bits(x); return (b & EXPM) == EXPM && (b & FRACM) != 0; }
static bool is_inf(FT x) { UT b = bits(x); return (b & ~SIGN) == EXPM; }
static bool is_fin(FT x) { return (bits(x) & EXPM) != EXPM; }
static bool is_zero(FT x) { return (bits(x) & ~SIGN) == 0; }
static bool sgn(FT x) { return (bits(x) >> (MB + EB)) != 0; }
static FT mag(FT x) { return fromb(bits(x) & ~SIGN); }
// both NaN, or identical bit patterns
static bool same(FT a, FT b) { return (is_nan(a) && is_nan(b)) || bits(a) == bits(b); }
// r is finite and an integral multiple of 2^k (k = 0: integer-valued, k = 1: even integer)
static bool mult_pow2(FT r, int k)
{
    UT b = bits(r);
    unsigned eb = unsigned((b & EXPM) >> MB);
    UT f = b & FRACM;
    if (eb == (1u << EB) - 1) return false;
    if (eb == 0) return f == 0; // zero yes, denormals no
    int e = int(eb) - BIAS;
    if (e < k) return false;
    int low = MB - e + k; // number of low fraction bits that must be clear (<= MB because e >= k)
    if (low <= 0) return true;
    return (f & ((UT(1) << low) - 1)) == 0;
}
static constexpr FT TWO63 = FT(9223372036854775808.0);
static constexpr FT EPS = std::numeric_limits<FT>::epsilon();
// |x| >= 2^63 (finite or not): static_cast<long long> is undefined there
static bool huge(FT x) { return !is_nan(x) && mag(x) >= TWO63; }
// static_cast<long long>(x) is undefined: NaN, or the truncated value is outside [-2^63, 2^63)
static bool cast_ub(FT x) { return is_nan(x) || x >= TWO63 || x < -TWO63; }
// 0 < |x| < epsilon
static bool tiny(FT x) { return !is_zero(x) && mag(x) < EPS; }

// ---------------------------------------------------------------- IEEE-754 / ISO C definitions, computed exactly from the bit pattern
// |x| = T + f with T an integer and 0 <= f < 1, both read off the bit pattern (no rounding anywhere):
// fc = 0: f == 0, 1: 0 < f < 1/2, 2: f == 1/2, 3: f > 1/2.  x finite.
struct Parts { FT T; int fc; };
static Parts parts(FT x)
{
    UT b = bits(x) & ~SIGN;
    unsigned eb = unsigned(b >> MB);
    UT f = b & FRACM;
    int e = int(eb) - BIAS;
    if (e >= MB) return {fromb(b), 0}; // every value >= 2^MB is an integer
    if (e < 0) {                       // |x| < 1 (zero and denormals included)
        if (b == 0) return {FT(0), 0};
        if (e < -1) return {FT(0), 1};
        return {FT(0), f == 0 ? 2 : 3}; // [1/2, 1)
    }
    int low = MB - e; // 1..MB fraction bits lie below the binary point
    UT mask = (UT(1) << low) - 1;
    UT fr = f & mask;
    UT half = UT(1) << (low - 1);
    return {fromb(b & ~mask), fr == 0 ? 0 : fr < half ? 1 : fr == half ? 2 : 3};
}
static FT with_sign(FT m, bool neg) { return fromb((bits(m) & ~SIGN) | (neg ? SIGN : 0)); }
// T < 2^MB whenever fc != 0, so T + 1 is exact
static FT def_floor(FT x) { Parts p = parts(x); return sgn(x) ? with_sign(p.fc ? p.T + 1 : p.T, true) : p.T; }
static FT def_ceil(FT x) { Parts p = parts(x); return sgn(x) ? with_sign(p.T, true) : (p.fc ? p.T + 1 : p.T); }
static FT def_trunc(FT x) { Parts p = parts(x); return with_sign(p.T, sgn(x)); }
static FT def_round(FT x) { Parts p = parts(x); return with_sign(p.fc >= 2 ? p.T + 1 : p.T, sgn(x)); } // halfway cases away from zero
static bool rint_up(Parts p) { return p.fc == 3 || (p.fc == 2 && !mult_pow2(p.T, 1)); }             // ties to even
static FT def_rint(FT x) { Parts p = parts(x); return with_sign(rint_up(p) ? p.T + 1 : p.T, sgn(x)); }
static bool spec1(FT x, FT r, FT (*def)(FT))
{
    if (is_nan(x)) return is_nan(r);
    if (is_inf(x)) return bits(r) == bits(x);
    return bits(r) == bits(def(x));
}
static bool spec_floor(FT x, FT r) { return spec1(x, r, def_floor); } // largest integral value <= x; floor(-0) = -0
static bool spec_ceil(FT x, FT r) { return spec1(x, r, def_ceil); }   // smallest integral value >= x; -0 for x in (-1,-0]
static bool spec_trunc(FT x, FT r) { return spec1(x, r, def_trunc); } // toward zero, sign kept
static bool spec_round(FT x, FT r) { return spec1(x, r, def_round); } // nearest, halfway cases away from zero, sign kept
static bool spec_rint(FT x, FT r) { return spec1(x, r, def_rint); }   // nearest, ties to even (default rounding mode), sign kept
// lrint/llrint: -2^63 <= x < 2^63 (precondition), so rint(x) converts exactly
static bool spec_lrint(FT x, long long L) { return L == (long long)def_rint(x); }
static bool spec_copysign(FT x, FT y, FT r) { return is_nan(x) ? is_nan(r) : bits(r) == ((bits(x) & ~SIGN) | (bits(y) & SIGN)); }
static bool spec_fabs(FT x, FT r) { return is_nan(x) ? is_nan(r) : bits(r) == (bits(x) & ~SIGN); }
// fmin/fmax: a quiet NaN argument is missing data. Two cases are left open by ISO C and accept either answer:
// zeros of opposite sign (glibc returns the second argument), and a signalling NaN argument (Annex F does not specify
// signalling NaNs; glibc returns a NaN, IEEE 754-2008 minNum/maxNum likewise, treating it like a quiet NaN is also accepted).
static bool is_snan(FT x) { return is_nan(x) && (bits(x) & (UT(1) << (MB - 1))) == 0; }
static bool spec_minmax(FT x, FT y, FT r, bool want_min)
{
    if ((is_snan(x) || is_snan(y)) && is_nan(r)) return true;
    if (is_nan(x)) return same(r, y);
    if (is_nan(y)) return bits(r) == bits(x);
    if (is_zero(x) && is_zero(y)) return bits(r) == bits(x) || bits(r) == bits(y);
    return bits(r) == ((want_min ? x < y : x > y) ? bits(x) : bits(y));
}
static bool spec_fmin(FT x, FT y, FT r) { return spec_minmax(x, y, r, true); }
static bool spec_fmax(FT x, FT y, FT r) { return spec_minmax(x, y, r, false); }
static NOINL FT o_sub(FT x, FT y) { return x - y; }
static bool spec_fdim(FT x, FT y, FT r)
{
    if (is_nan(x) || is_nan(y)) return is_nan(r);
    if (x > y) return bits(r) == bits(o_sub(x, y));
    return bits(r) == 0;
}
static bool spec_nextafter(FT x, FT y, FT r)
{
    if (is_nan(x) || is_nan(y)) return is_nan(r);
    if (x == y) return bits(r) == bits(y);
    if (is_zero(x)) return bits(r) == ((bits(y) & SIGN) | 1);
    bool up = x < y;                                             // value must grow
    return bits(r) == (up == !sgn(x) ? bits(x) + 1 : bits(x) - 1); // growing magnitude = next bit pattern
}

// ---------------------------------------------------------------- fmod / remainder: special cases (ISO C F.10.7.1/.2) and integer arguments
static bool spec_mod_special(FT x, FT y, FT r)
{
    if (is_nan(x) || is_nan(y) || is_inf(x) || is_zero(y)) return is_nan(r);
    return bits(r) == bits(x); // y infinite and x finite, or x is a zero and y is not: x itself
}
static bool mod_special(FT x, FT y) { return !is_fin(x) || !is_fin(y) || is_zero(x) || is_zero(y); }
// remainder of integers: x - n*y, n = x/y rounded to nearest, ties to even
static int rem_int(int xi, int yi)
{
    int ay = yi < 0 ? -yi : yi;
    int ri = xi % yi; // |ri| < |yi|, sign of xi
    int ar = ri < 0 ? -ri : ri;
    int q = xi / yi;  // truncated quotient; its parity decides the tie
    if (2 * ar > ay || (2 * ar == ay && (q & 1))) ri = ri < 0 ? ri + ay : (ri > 0 ? ri - ay : ri);
    return ri;
}
#endif
