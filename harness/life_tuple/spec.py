PROPERTIES = ['C03', 'C02']
BOUNDS = {
    'quick': 'pair<TA,TB> and tuple<TA,TB,int> with instrumented members: every constructor, assignment and swap form that exists, self-assignment and self-swap; payloads and raw object bytes symbolic; '
             'copy+move, move-only, copy-only and defaulted-assignment members',
    'thorough': 'same as quick (there is no size or state to enumerate)',
}
ASSUMPTIONS = [
    'C03: etl::tuple declares its copy and move constructors, so it has no assignment operators; only construction, swap and get are exercised for it',
    'C03: a moved-from pair / tuple stays alive: its members are then assigned to and the object is destroyed',
]
P_ALL = ['default', 'from_rvalues', 'from_args', 'from_ps', 'from_ps_move', 'assign_ps', 'assign_ps_move', 'set', 'swap_self', 'move_assign_self', 'move_ctor', 'move_assign', 'swap', 'swap_free', 'rel']
P_COPY = ['from_values', 'make_pair', 'copy_assign_self', 'copy_ctor', 'copy_assign']
T_ALL = ['default', 'from_rvalues', 'set', 'move_ctor', 'swap', 'swap_self']
T_COPY = ['from_values', 'copy_ctor']
UW = {'ll_memset.0': 130, 'll_memcpy.0': 130, 'll_memmove.0': 130, 'll_memmove.1': 130, 'll_undef_bytes.0': 66}
for f_, n_ in (('d_sym_block', 40), ('lg_register', 18), ('lg_expect', 18), ('lg_marks', 70)):
    for i_ in range(4): UW['%s.%d' % (f_, i_)] = n_


def queries(tier, prop='C03'):
    ub = prop == 'C02'
    out = []
    for fl in ((0, 1, 2, 3) if not ub else (0,)):
        for (pre, al, cp) in (('p_', P_ALL, P_COPY), ('t_', T_ALL, T_COPY)):
            for e in al + ([] if fl == 1 else cp):
                out.append(dict(entry='q_' + pre + e, cfg={'FLAV': fl}, unwind=24, unwindset=UW, budget=120, ub=ub, nofunc=ub))
    for q_ in out:
        q_['lazy_trace'] = True   # verdict first, counterexample trace only when an obligation fails (engine/runner.py)
        if q_['cfg'].get('FLAV') == 3: q_['cbmc_flags'] = ['--max-field-sensitivity-array-size', '256']   # defaulted assignment = memcpy through pointers: keep the ledger global field-sensitive
    return out
