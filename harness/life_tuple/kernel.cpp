// C03 kernels (family life_tuple): thin wrappers around etl::pair<TA,TB> and etl::tuple<TA,TB,int> with the instrumented
// members TA = Tracked<1,FLAV>, TB = Tracked<2,FLAV> (../life_vec/tracked.h). No logic besides marshalling.
#include <etl/tuple.hpp>
#include <etl/utility.hpp>
#include <etl/new.hpp>
#include "vf.h" // after the library headers (K and Q are macros)
#include "../life_vec/tracked.h"
using TA = Tracked<1, FLAV>;
using TB = Tracked<2, FLAV>;
using PV = uint32_t;
using u64 = uint64_t;
using P = etl::pair<TA, TB>;
using PS = etl::pair<SrcV, SrcV>;
using TU = etl::tuple<TA, TB, int>;
#define PR(p) (*static_cast<P*>(p))
#define PC(p) (*static_cast<P const*>(p))
#define TR(p) (*static_cast<TU*>(p))
#define TC(p) (*static_cast<TU const*>(p))
static inline u64 off_of(void const* obj, void const* member) { return u64(static_cast<unsigned char const*>(member) - static_cast<unsigned char const*>(obj)); }
K u64 k_esize() { return sizeof(TA); }
// ---- pair
K u64 k_p_sizeof() { return sizeof(P); }
K u64 k_p_off(void const* p, unsigned i) { return i == 0 ? off_of(p, &PC(p).first) : off_of(p, &PC(p).second); }
K void k_p_dtor(void* p) { PR(p).~P(); }
K PV k_p_first(void const* p) { return (PV)etl::get<0>(PC(p)).get(); }
K PV k_p_second(void const* p) { return (PV)etl::get<1>(PC(p)).get(); }
K void k_p_default(void* p) { ::new (p) P(); }
K void k_p_from_rvalues(void* p, PV a, PV b) { ::new (p) P(TA((int)a), TB((int)b)); }
K void k_p_from_args(void* p, PV a, PV b) { ::new (p) P(SrcV{(int)a}, SrcV{(int)b}); }                        // pair(U1&&, U2&&) converting
K void k_p_from_ps(void* p, PV a, PV b) { PS const s{SrcV{(int)a}, SrcV{(int)b}}; ::new (p) P(s); }            // pair(pair<U1,U2> const&)
K void k_p_from_ps_move(void* p, PV a, PV b) { ::new (p) P(PS{SrcV{(int)a}, SrcV{(int)b}}); }                  // pair(pair<U1,U2>&&)
K void k_p_move_ctor(void* d, void* s) { ::new (d) P(etl::move(PR(s))); }
K void k_p_move_assign(void* d, void* s) { PR(d) = etl::move(PR(s)); }
K void k_p_assign_ps(void* p, PV a, PV b) { PS const s{SrcV{(int)a}, SrcV{(int)b}}; PR(p) = s; }
K void k_p_assign_ps_move(void* p, PV a, PV b) { PR(p) = PS{SrcV{(int)a}, SrcV{(int)b}}; }
K void k_p_swap(void* a, void* b) { PR(a).swap(PR(b)); }
K void k_p_swap_free(void* a, void* b) { using etl::swap; swap(PR(a), PR(b)); }
K void k_p_set(void* p, PV a, PV b) { etl::get<0>(PR(p)) = TA((int)a); PR(p).second = TB((int)b); }
K unsigned k_p_rel(void const* a, void const* b)
{
    P const& x = PC(a); P const& y = PC(b);
    return unsigned(x == y) | unsigned(x != y) << 1 | unsigned(x < y) << 2 | unsigned(x <= y) << 3 | unsigned(x > y) << 4 | unsigned(x >= y) << 5;
}
#if FLAV != 1
K void k_p_from_values(void* p, PV a, PV b) { TA const x((int)a); TB const y((int)b); ::new (p) P(x, y); }
K void k_p_make_pair(void* p, PV a, PV b) { TA const x((int)a); ::new (p) P(etl::make_pair(x, TB((int)b))); }
K void k_p_copy_ctor(void* d, void const* s) { ::new (d) P(PC(s)); }
K void k_p_copy_assign(void* d, void const* s) { PR(d) = PC(s); }
#else
K void k_p_from_values(void*, PV, PV) {}
K void k_p_make_pair(void*, PV, PV) {}
K void k_p_copy_ctor(void*, void const*) {}
K void k_p_copy_assign(void*, void const*) {}
#endif
// ---- tuple
K u64 k_t_sizeof() { return sizeof(TU); }
K u64 k_t_off(void const* p, unsigned i) { return i == 0 ? off_of(p, &etl::get<0>(TC(p))) : off_of(p, &etl::get<1>(TC(p))); }
K void k_t_dtor(void* p) { TR(p).~TU(); }
K PV k_t_get(void const* p, unsigned i) { return i == 0 ? (PV)etl::get<0>(TC(p)).get() : i == 1 ? (PV)etl::get<1>(TC(p)).get() : (PV)etl::get<2>(TC(p)); }
K void k_t_default(void* p) { ::new (p) TU(); }
K void k_t_from_rvalues(void* p, PV a, PV b, PV c) { ::new (p) TU(TA((int)a), TB((int)b), (int)c); }
K void k_t_move_ctor(void* d, void* s) { ::new (d) TU(etl::move(TR(s))); }
K void k_t_swap(void* a, void* b) { TR(a).swap(TR(b)); }
K void k_t_set(void* p, PV a, PV b, PV c) { etl::get<0>(TR(p)) = TA((int)a); etl::get<1>(TR(p)) = TB((int)b); etl::get<2>(TR(p)) = (int)c; }
K bool k_t_eq(void const* a, void const* b) { return TC(a) == TC(b); }
#if FLAV != 1
K void k_t_from_values(void* p, PV a, PV b, PV c) { TA const x((int)a); TB const y((int)b); int const z = (int)c; ::new (p) TU(x, y, z); }
K void k_t_copy_ctor(void* d, void const* s) { ::new (d) TU(TC(s)); }
#else
K void k_t_from_values(void*, PV, PV, PV) {}
K void k_t_copy_ctor(void*, void const*) {}
#endif
