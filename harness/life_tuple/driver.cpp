// C03 driver (family life_tuple): every construction / assignment / swap form of etl::pair<TA,TB> and etl::tuple<TA,TB,int> with
// instrumented members (../life_vec/tracked.h). Symbolic: all payloads, the raw object bytes.
// Checked after every kernel call: member values equal the model; exactly the two instrumented members of each live pair / tuple
// are live objects (census of the object's block; reading a member checks its type tag); no temporary is alive; no illegal
// transition. At the end: nothing alive, constructions == destructions. Moved-from objects are assigned to and destroyed.
#define LIFE_DRIVER 1
#include "vf.h"
#include "../life_vec/tracked.h"
extern "C" {
Ledger vf_led;
}
using u64 = uint64_t;
using PV = uint32_t;
#define ESZ 8u
extern "C" {
u64 k_esize(); u64 k_p_sizeof(); u64 k_p_off(void const*, unsigned); void k_p_dtor(void*); PV k_p_first(void const*); PV k_p_second(void const*); void k_p_default(void*);
void k_p_from_rvalues(void*, PV, PV); void k_p_from_args(void*, PV, PV); void k_p_from_ps(void*, PV, PV); void k_p_from_ps_move(void*, PV, PV); void k_p_move_ctor(void*, void*);
void k_p_move_assign(void*, void*); void k_p_assign_ps(void*, PV, PV); void k_p_assign_ps_move(void*, PV, PV); void k_p_swap(void*, void*); void k_p_swap_free(void*, void*);
void k_p_set(void*, PV, PV); unsigned k_p_rel(void const*, void const*); void k_p_from_values(void*, PV, PV); void k_p_make_pair(void*, PV, PV); void k_p_copy_ctor(void*, void const*);
void k_p_copy_assign(void*, void const*);
u64 k_t_sizeof(); u64 k_t_off(void const*, unsigned); void k_t_dtor(void*); PV k_t_get(void const*, unsigned); void k_t_default(void*); void k_t_from_rvalues(void*, PV, PV, PV);
void k_t_move_ctor(void*, void*); void k_t_swap(void*, void*); void k_t_set(void*, PV, PV, PV); bool k_t_eq(void const*, void const*); void k_t_from_values(void*, PV, PV, PV);
void k_t_copy_ctor(void*, void const*);
}
static inline PV nd_pv() { return (PV)lg_nd_payload(); }
extern "C" __attribute__((noinline)) void* d_sym_block(u64 n)
{
    unsigned char* p = (unsigned char*)vf_alloc(n);
    for (u64 i = 0; i < n; i++) p[i] = vf_nd_u8();
    return p;
}
#define END() lg_balanced()
// ---- pair: both members are 8-byte Tracked objects, 8 bytes apart
static inline void* p_raw(unsigned r)
{
    void* p = d_sym_block(k_p_sizeof()); lg_register(r, p, k_p_sizeof());
    vf_assert(k_p_off(p, 1) == k_p_off(p, 0) + ESZ, "harness: pair members are adjacent");
    lg_layout(r, k_p_off(p, 0), ESZ);
    return p;
}
static inline void p_alive(void* p, unsigned r) { lg_expect(r, k_p_off(p, 0), 2, ESZ, 0); lg_quiet(); }
static inline void p_check(void* p, PV a, PV b, unsigned r)
{
    p_alive(p, r);
    vf_assert(k_p_first(p) == a && k_p_second(p) == b, "pair members == model"); // reading checks each member's type tag
    lg_quiet();
}
static inline void p_fin(void* p, unsigned r) { k_p_dtor(p); lg_expect(r, 0, 0, ESZ, 0); lg_quiet(); }
static inline void* p_make(PV a, PV b, unsigned r)
{
    void* p = p_raw(r); uint32_t c0 = vf_led.nctor, d0 = vf_led.ndtor;
    k_p_from_rvalues(p, a, b);
    vf_assert((vf_led.nctor - c0) - (vf_led.ndtor - d0) == 2, "ledger is shared between the TUs: constructing a pair leaves exactly its two members alive");
    p_check(p, a, b, r);
    return p;
}
// a moved-from pair is alive: assignable and destructible
static inline void p_reuse_fin(void* p, unsigned r) { p_alive(p, r); PV a = nd_pv(), b = nd_pv(); k_p_set(p, a, b); p_check(p, a, b, r); p_fin(p, r); }
#define P_CT(NAME, ...)                                                                                                  \
    Q q_p_##NAME() { PV a = nd_pv(), b = nd_pv(); void* p = p_raw(0); __VA_ARGS__; p_fin(p, 0); END(); }
P_CT(default, k_p_default(p); p_check(p, 0, 0, 0))
P_CT(from_values, k_p_from_values(p, a, b); p_check(p, a, b, 0))
P_CT(from_rvalues, k_p_from_rvalues(p, a, b); p_check(p, a, b, 0))
P_CT(from_args, k_p_from_args(p, a, b); p_check(p, a, b, 0))
P_CT(from_ps, k_p_from_ps(p, a, b); p_check(p, a, b, 0))
P_CT(from_ps_move, k_p_from_ps_move(p, a, b); p_check(p, a, b, 0))
P_CT(make_pair, k_p_make_pair(p, a, b); p_check(p, a, b, 0))
#define P_UN(NAME, ...)                                                                                                  \
    Q q_p_##NAME() { PV a = nd_pv(), b = nd_pv(), c = nd_pv(), d = nd_pv(); void* p = p_make(a, b, 0); (void)c; (void)d; __VA_ARGS__; p_fin(p, 0); END(); }
P_UN(assign_ps, k_p_assign_ps(p, c, d); p_check(p, c, d, 0))
P_UN(assign_ps_move, k_p_assign_ps_move(p, c, d); p_check(p, c, d, 0))
P_UN(set, k_p_set(p, c, d); p_check(p, c, d, 0))
P_UN(copy_assign_self, k_p_copy_assign(p, p); p_check(p, a, b, 0))
P_UN(swap_self, k_p_swap(p, p); p_check(p, a, b, 0))
Q q_p_move_assign_self() { PV a = nd_pv(), b = nd_pv(); void* p = p_make(a, b, 0); k_p_move_assign(p, p); p_reuse_fin(p, 0); END(); }
Q q_p_copy_ctor()
{
    PV a = nd_pv(), b = nd_pv(); void* p = p_make(a, b, 0); void* q = p_raw(1);
    k_p_copy_ctor(q, p); p_check(q, a, b, 1); p_check(p, a, b, 0); p_fin(p, 0); p_check(q, a, b, 1); p_fin(q, 1); END();
}
Q q_p_move_ctor()
{
    PV a = nd_pv(), b = nd_pv(); void* p = p_make(a, b, 0); void* q = p_raw(1);
    k_p_move_ctor(q, p); p_check(q, a, b, 1); p_reuse_fin(p, 0); p_check(q, a, b, 1); p_fin(q, 1); END();
}
#define P_BIN(NAME, ...)                                                                                                 \
    Q q_p_##NAME() { PV a = nd_pv(), b = nd_pv(), c = nd_pv(), d = nd_pv(); void* p = p_make(a, b, 0); void* q = p_make(c, d, 1); __VA_ARGS__; END(); }
P_BIN(copy_assign, k_p_copy_assign(p, q); p_check(p, c, d, 0); p_check(q, c, d, 1); p_fin(q, 1); p_check(p, c, d, 0); p_fin(p, 0))
P_BIN(move_assign, k_p_move_assign(p, q); p_check(p, c, d, 0); p_reuse_fin(q, 1); p_check(p, c, d, 0); p_fin(p, 0))
P_BIN(swap, k_p_swap(p, q); p_check(p, c, d, 0); p_check(q, a, b, 1); p_fin(p, 0); p_check(q, a, b, 1); p_fin(q, 1))
P_BIN(swap_free, k_p_swap_free(p, q); p_check(p, c, d, 0); p_check(q, a, b, 1); p_fin(q, 1); p_check(p, c, d, 0); p_fin(p, 0))
P_BIN(rel, (void)k_p_rel(p, q); p_check(p, a, b, 0); p_check(q, c, d, 1); p_fin(p, 0); p_fin(q, 1))
// ---- tuple<TA, TB, int>
static inline void* t_raw(unsigned r)
{
    void* p = d_sym_block(k_t_sizeof()); lg_register(r, p, k_t_sizeof());
    vf_assert(k_t_off(p, 1) == k_t_off(p, 0) + ESZ, "harness: the two instrumented tuple elements are adjacent");
    lg_layout(r, k_t_off(p, 0), ESZ); vf_led.nslot[r] = 2;
    return p;
}
static inline void t_alive(void* p, unsigned r) { lg_expect(r, k_t_off(p, 0), 2, ESZ, 0); lg_quiet(); }
static inline void t_check(void* p, PV a, PV b, PV c, unsigned r)
{
    t_alive(p, r);
    vf_assert(k_t_get(p, 0) == a && k_t_get(p, 1) == b && k_t_get(p, 2) == c, "tuple elements == model");
    lg_quiet();
}
static inline void t_fin(void* p, unsigned r) { k_t_dtor(p); lg_expect(r, 0, 0, ESZ, 0); lg_quiet(); }
static inline void* t_make(PV a, PV b, PV c, unsigned r) { void* p = t_raw(r); k_t_from_rvalues(p, a, b, c); t_check(p, a, b, c, r); return p; }
static inline void t_reuse_fin(void* p, unsigned r) { t_alive(p, r); PV a = nd_pv(), b = nd_pv(), c = nd_pv(); k_t_set(p, a, b, c); t_check(p, a, b, c, r); t_fin(p, r); }
Q q_t_default() { void* p = t_raw(0); k_t_default(p); t_check(p, 0, 0, 0, 0); t_fin(p, 0); END(); }
Q q_t_from_values() { PV a = nd_pv(), b = nd_pv(), c = nd_pv(); void* p = t_raw(0); k_t_from_values(p, a, b, c); t_check(p, a, b, c, 0); t_fin(p, 0); END(); }
Q q_t_from_rvalues() { PV a = nd_pv(), b = nd_pv(), c = nd_pv(); void* p = t_raw(0); k_t_from_rvalues(p, a, b, c); t_check(p, a, b, c, 0); t_fin(p, 0); END(); }
Q q_t_set() { PV a = nd_pv(), b = nd_pv(), c = nd_pv(), d = nd_pv(); void* p = t_make(a, b, c, 0); k_t_set(p, d, a, b); t_check(p, d, a, b, 0); t_fin(p, 0); END(); }
Q q_t_copy_ctor()
{
    PV a = nd_pv(), b = nd_pv(), c = nd_pv(); void* p = t_make(a, b, c, 0); void* q = t_raw(1);
    k_t_copy_ctor(q, p); t_check(q, a, b, c, 1); t_check(p, a, b, c, 0); t_fin(p, 0); t_check(q, a, b, c, 1); t_fin(q, 1); END();
}
Q q_t_move_ctor()
{
    PV a = nd_pv(), b = nd_pv(), c = nd_pv(); void* p = t_make(a, b, c, 0); void* q = t_raw(1);
    k_t_move_ctor(q, p); t_check(q, a, b, c, 1); t_reuse_fin(p, 0); t_check(q, a, b, c, 1); t_fin(q, 1); END();
}
Q q_t_swap()
{
    PV a = nd_pv(), b = nd_pv(), c = nd_pv(), d = nd_pv(), e = nd_pv(), f = nd_pv(); void* p = t_make(a, b, c, 0); void* q = t_make(d, e, f, 1);
    k_t_swap(p, q); t_check(p, d, e, f, 0); t_check(q, a, b, c, 1); (void)k_t_eq(p, q); t_fin(p, 0); t_check(q, a, b, c, 1); t_fin(q, 1); END();
}
Q q_t_swap_self() { PV a = nd_pv(), b = nd_pv(), c = nd_pv(); void* p = t_make(a, b, c, 0); k_t_swap(p, p); t_check(p, a, b, c, 0); t_fin(p, 0); END(); }
