// C05 kernels (vectors): thin wrappers around etl::static_vector<E,CAP> and etl::inplace_vector<E,CAP> built with contract
// checks and the custom handler. No logic besides marshalling: objects are addressed through void*, iterators travel as
// SIGNED element offsets from begin() (so that positions before begin() and beyond end() can be named), elements as PV.
#include "c05_kernel.h" // first: contract configuration + etl::assert_handler
#include <etl/inplace_vector.hpp>
#include <etl/iterator.hpp>
#include <etl/new.hpp>
#include <etl/vector.hpp>
#include "vf.h" // after the library headers (K and Q are macros)
#include "elem.h"
#ifndef CAP
#define CAP 3
#endif
using SV = etl::static_vector<E, CAP>;
using IV = etl::inplace_vector<E, CAP>;
using u64 = uint64_t;
using i64 = int64_t;
#define SVR(p) (*static_cast<SV*>(p))
#define SVC(p) (*static_cast<SV const*>(p))
#define IVR(p) (*static_cast<IV*>(p))
#define IVC(p) (*static_cast<IV const*>(p))
#define EP(p) (static_cast<E const*>(p))

K u64 k_esize() { return sizeof(E); }
K void k_mk_array(void* blk, PV const* vals, u64 cnt) { for (u64 i = 0; i < cnt; i++) ::new (static_cast<E*>(blk) + i) E(mk(vals[i])); }

// ---- static_vector: state
K u64 k_sv_sizeof() { return sizeof(SV); }
K void k_sv_new(void* p) { ::new (p) SV; }
K u64 k_sv_size(void const* p) { return SVC(p).size(); }
K unsigned char* k_sv_data(void* p) { return reinterpret_cast<unsigned char*>(SVR(p).data()); }
// ---- element access
K PV k_sv_at(void* p, u64 i) { return rd(SVR(p)[i]); }
K PV k_sv_at_c(void const* p, u64 i) { return rd(SVC(p)[i]); }
K PV k_sv_front(void* p) { return rd(SVR(p).front()); }
K PV k_sv_front_c(void const* p) { return rd(SVC(p).front()); }
K PV k_sv_back(void* p) { return rd(SVR(p).back()); }
K PV k_sv_back_c(void const* p) { return rd(SVC(p).back()); }
// ---- growth / shrink at the end
K void k_sv_push_back_l(void* p, PV x) { E const e = mk(x); SVR(p).push_back(e); }
K void k_sv_push_back_r(void* p, PV x) { SVR(p).push_back(mk(x)); }
#if ELT == 2
K void k_sv_emplace_back(void* p, PV x) { SVR(p).emplace_back((int)x); }
K void k_sv_emplace(void* p, i64 pos, PV x) { SVR(p).emplace(SVR(p).cbegin() + pos, (int)x); }
#else
K void k_sv_emplace_back(void* p, PV x) { SVR(p).emplace_back(mk(x)); }
K void k_sv_emplace(void* p, i64 pos, PV x) { SVR(p).emplace(SVR(p).cbegin() + pos, mk(x)); }
#endif
K void k_sv_pop_back(void* p) { SVR(p).pop_back(); }
// ---- insert / erase
K void k_sv_insert_l(void* p, i64 pos, PV x) { E const e = mk(x); SVR(p).insert(SVR(p).cbegin() + pos, e); }
K void k_sv_insert_r(void* p, i64 pos, PV x) { SVR(p).insert(SVR(p).cbegin() + pos, mk(x)); }
K void k_sv_insert_fill(void* p, i64 pos, u64 cnt, PV x) { E const e = mk(x); SVR(p).insert(SVR(p).cbegin() + pos, cnt, e); }
K void k_sv_insert_range(void* p, i64 pos, void const* src, i64 a, i64 b) { SVR(p).insert(SVR(p).cbegin() + pos, EP(src) + a, EP(src) + b); }
K void k_sv_move_insert(void* p, i64 pos, void* src, i64 a, i64 b) { SVR(p).move_insert(SVR(p).cbegin() + pos, static_cast<E*>(src) + a, static_cast<E*>(src) + b); }
K void k_sv_erase1(void* p, i64 pos) { SVR(p).erase(SVR(p).cbegin() + pos); }
K void k_sv_erase_range(void* p, i64 first, i64 last) { SVR(p).erase(SVR(p).cbegin() + first, SVR(p).cbegin() + last); }
K void k_sv_clear(void* p) { SVR(p).clear(); }
// ---- resize / assign / constructors
K void k_sv_resize1(void* p, u64 sz) { SVR(p).resize(sz); }
K void k_sv_resize2(void* p, u64 sz, PV x) { E const e = mk(x); SVR(p).resize(sz, e); }
K void k_sv_assign_range(void* p, void const* src, i64 a, i64 b) { SVR(p).assign(EP(src) + a, EP(src) + b); }
K void k_sv_assign_fill(void* p, u64 cnt, PV x) { E const e = mk(x); SVR(p).assign(cnt, e); }
K void k_sv_ctor_n(void* dst, u64 n) { ::new (dst) SV(n); }
K void k_sv_ctor_nv(void* dst, u64 n, PV x) { E const e = mk(x); ::new (dst) SV(n, e); }
K void k_sv_ctor_range(void* dst, void const* src, i64 a, i64 b) { ::new (dst) SV(EP(src) + a, EP(src) + b); }
// (range insert/assign/construct with a non-pointer iterator do not compile: assert_valid_iterator_pair static_asserts is_pointer_v,
//  so the "size of the range not visible from the arguments" case does not exist for static_vector)

// ---- inplace_vector (CAP > 0)
K u64 k_iv_sizeof() { return sizeof(IV); }
K void k_iv_new(void* p) { ::new (p) IV(); }
K u64 k_iv_size(void const* p) { return IVC(p).size(); }
K unsigned char* k_iv_data(void* p) { return reinterpret_cast<unsigned char*>(IVR(p).data()); }
#if CAP > 0
K PV k_iv_at(void* p, u64 i) { return rd(IVR(p)[i]); }
K PV k_iv_at_c(void const* p, u64 i) { return rd(IVC(p)[i]); }
K PV k_iv_front(void* p) { return rd(IVR(p).front()); }
K PV k_iv_front_c(void const* p) { return rd(IVC(p).front()); }
K PV k_iv_back(void* p) { return rd(IVR(p).back()); }
K PV k_iv_back_c(void const* p) { return rd(IVC(p).back()); }
K void k_iv_unchecked_push_back_l(void* p, PV x) { E const e = mk(x); IVR(p).unchecked_push_back(e); }
K void k_iv_unchecked_push_back_r(void* p, PV x) { IVR(p).unchecked_push_back(mk(x)); }
#if ELT == 2
K void k_iv_unchecked_emplace_back(void* p, PV x) { IVR(p).unchecked_emplace_back((int)x); }
#else
K void k_iv_unchecked_emplace_back(void* p, PV x) { IVR(p).unchecked_emplace_back(mk(x)); }
#endif
K void k_iv_pop_back(void* p) { IVR(p).pop_back(); }
K bool k_iv_try_push_back_l(void* p, PV x) { E const e = mk(x); return IVR(p).try_push_back(e) != nullptr; }
K bool k_iv_try_push_back_r(void* p, PV x) { return IVR(p).try_push_back(mk(x)) != nullptr; }
K void k_iv_clear(void* p) { IVR(p).clear(); }
#endif
