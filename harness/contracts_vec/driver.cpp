// C05 driver (vectors): static_vector<E,CAP> and inplace_vector<E,CAP>. The pre-state is a vector of NA symbolic elements
// (NA enumerated, installed through the public API into a block of symbolic bytes, unused storage re-randomised); the
// arguments of the ONE operation under test are unconstrained (valid and violating in the same query). Iterator arguments
// are begin() + pos with pos a signed symbolic offset in [-2^20, 2^20] (so positions before begin() and beyond end() occur);
// ranges are [src, src + b) over an exact-size block of NB elements with b signed symbolic, b <= NB.
// What is asserted: contracts_common/c05.h. After a valid call only size() is compared (C01 covers the functional behaviour).
#include "c05.h"
#include "elem.h"
#ifndef CAP
#define CAP 3
#endif
#ifndef NA
#define NA 0
#endif
#ifndef NB
#define NB (CAP + 1)
#endif
typedef int64_t i64;
extern "C" {
u64 k_esize(); void k_mk_array(void*, PV const*, u64);
u64 k_sv_sizeof(); void k_sv_new(void*); u64 k_sv_size(void const*); unsigned char* k_sv_data(void*);
PV k_sv_at(void*, u64); PV k_sv_at_c(void const*, u64); PV k_sv_front(void*); PV k_sv_front_c(void const*); PV k_sv_back(void*); PV k_sv_back_c(void const*);
void k_sv_push_back_l(void*, PV); void k_sv_push_back_r(void*, PV); void k_sv_emplace_back(void*, PV); void k_sv_emplace(void*, i64, PV); void k_sv_pop_back(void*);
void k_sv_insert_l(void*, i64, PV); void k_sv_insert_r(void*, i64, PV); void k_sv_insert_fill(void*, i64, u64, PV);
void k_sv_insert_range(void*, i64, void const*, i64, i64); void k_sv_move_insert(void*, i64, void*, i64, i64);
void k_sv_erase1(void*, i64); void k_sv_erase_range(void*, i64, i64); void k_sv_clear(void*);
void k_sv_resize1(void*, u64); void k_sv_resize2(void*, u64, PV); void k_sv_assign_range(void*, void const*, i64, i64); void k_sv_assign_fill(void*, u64, PV);
void k_sv_ctor_n(void*, u64); void k_sv_ctor_nv(void*, u64, PV); void k_sv_ctor_range(void*, void const*, i64, i64);
u64 k_iv_sizeof(); void k_iv_new(void*); u64 k_iv_size(void const*); unsigned char* k_iv_data(void*);
PV k_iv_at(void*, u64); PV k_iv_at_c(void const*, u64); PV k_iv_front(void*); PV k_iv_front_c(void const*); PV k_iv_back(void*); PV k_iv_back_c(void const*);
void k_iv_unchecked_push_back_l(void*, PV); void k_iv_unchecked_push_back_r(void*, PV); void k_iv_unchecked_emplace_back(void*, PV); void k_iv_pop_back(void*);
bool k_iv_try_push_back_l(void*, PV); bool k_iv_try_push_back_r(void*, PV); void k_iv_clear(void*);
}
static inline PV nd_pv() { return sizeof(PV) == 8 ? (PV)vf_nd_u64() : (PV)vf_nd_u32(); }
extern "C" __attribute__((noinline)) void* d_sym_block(u64 n)
{
    unsigned char* p = (unsigned char*)vf_alloc(n);
    for (u64 i = 0; i < n; i++) p[i] = vf_nd_u8();
    return p;
}
extern "C" __attribute__((noinline)) void d_slack(unsigned char* d, u64 from, u64 to)
{
    for (u64 j = from; j < to; j++) d[j] = vf_nd_u8();
}
static constexpr i64 PMAX = i64(1) << 20;
// CAP == 0: begin() is a null pointer, the only iterator that can be formed from it is begin() itself
static inline i64 nd_pos() { i64 p = (i64)vf_nd_u64(); vf_assume(CAP == 0 ? p == 0 : (p >= -PMAX && p <= PMAX)); return p; }
// static_vector / inplace_vector with NA symbolic elements; the whole object is watched
static inline void* sv_make()
{
    void* p = d_sym_block(k_sv_sizeof()); k_sv_new(p);
    for (unsigned i = 0; i < NA; i++) k_sv_emplace_back(p, nd_pv());
    if (CAP > 0) d_slack(k_sv_data(p), u64(NA) * sizeof(E), u64(CAP) * sizeof(E));
    vf_assert(k_sv_size(p) == NA, "pre-state installed");
    c05_watch0(p, k_sv_sizeof());
    return p;
}
// exact-size block of NB elements with symbolic values (source of range operations); watched as the second region
static inline void* src_make()
{
    PV* vals = (PV*)vf_alloc(u64(NB) * sizeof(PV));
    for (unsigned i = 0; i < NB; i++) vals[i] = nd_pv();
    void* blk = vf_alloc(u64(NB) * sizeof(E)); k_mk_array(blk, vals, NB);
    c05_watch1(blk, u64(NB) * sizeof(E));
    return blk;
}
// end of a source range: src + b, b in [-2^20, NB]
static inline i64 nd_last() { i64 b = (i64)vf_nd_u64(); vf_assume(b >= -PMAX && b <= (i64)NB); return b; }

// sites that depend on which storage class static_vector<E,CAP> uses
#if CAP == 0
#define S_EMPLACE_BACK SITE_static_vector_1
#define S_POP_BACK SITE_static_vector_2
#define S_SET_SIZE SITE_static_vector_3
#elif ELT == 2
#define S_EMPLACE_BACK SITE_static_vector_7
#define S_POP_BACK SITE_static_vector_8
#define S_SET_SIZE SITE_static_vector_9
#else
#define S_EMPLACE_BACK SITE_static_vector_4
#define S_POP_BACK SITE_static_vector_5
#define S_SET_SIZE SITE_static_vector_6
#endif

// =====================================================================================================================
// static_vector: element access
// =====================================================================================================================
// Known finding C05_index_cast_to_ptrdiff: detail::index compares static_cast<ptrdiff_t>(i) < size, which holds for every
// i >= 2^63 (negative after the cast): no handler, element read far outside the object.
Q q_sv_at()
{
    void* p = sv_make(); u64 i = vf_nd_u64();
    VF_KNOWN(C05_index_cast_to_ptrdiff, i >= (u64(1) << 63));
    C05_CLAUSE(0, SITE_index_1, !(i < NA));
    c05_arm(); (void)k_sv_at(p, i); c05_done();
}
Q q_sv_at_c()
{
    void* p = sv_make(); u64 i = vf_nd_u64();
    VF_KNOWN(C05_index_cast_to_ptrdiff, i >= (u64(1) << 63));
    C05_CLAUSE(0, SITE_index_1, !(i < NA));
    c05_arm(); (void)k_sv_at_c(p, i); c05_done();
}
#define SV_STATEQ(NAME, SITE, VIOL, CALL, NEWSIZE)                                                                     \
    Q NAME()                                                                                                           \
    {                                                                                                                  \
        void* p = sv_make(); PV x = nd_pv(); (void)x;                                                                  \
        C05_CLAUSE(0, SITE, VIOL);                                                                                     \
        c05_arm(); CALL; c05_done();                                                                                   \
        vf_assert(k_sv_size(p) == (NEWSIZE), "size() after a valid call");                                             \
    }
SV_STATEQ(q_sv_front, SITE_index_1, NA == 0, (void)k_sv_front(p), NA)
SV_STATEQ(q_sv_front_c, SITE_index_1, NA == 0, (void)k_sv_front_c(p), NA)
SV_STATEQ(q_sv_back, SITE_static_vector_27, NA == 0, (void)k_sv_back(p), NA)
SV_STATEQ(q_sv_back_c, SITE_static_vector_28, NA == 0, (void)k_sv_back_c(p), NA)
// growing past capacity / shrinking below empty
SV_STATEQ(q_sv_push_back_l, SITE_static_vector_13, NA == CAP, k_sv_push_back_l(p, x), NA + 1)
SV_STATEQ(q_sv_push_back_r, SITE_static_vector_13, NA == CAP, k_sv_push_back_r(p, x), NA + 1)
SV_STATEQ(q_sv_emplace_back, S_EMPLACE_BACK, NA == CAP, k_sv_emplace_back(p, x), NA + 1)
SV_STATEQ(q_sv_pop_back, S_POP_BACK, NA == 0, k_sv_pop_back(p), NA - 1)
// single-element insertion at a position: not full, begin() <= pos, pos <= end()
#define SV_INS1Q(NAME, SITE, KFN)                                                                                      \
    Q NAME()                                                                                                           \
    {                                                                                                                  \
        void* p = sv_make(); i64 pos = nd_pos(); PV x = nd_pv();                                                       \
        C05_CLAUSE(0, SITE, NA == CAP);                                                                                \
        C05_CLAUSE(1, SITE_static_vector_30, pos < 0);                                                                 \
        C05_CLAUSE(2, SITE_static_vector_31, pos > (i64)NA);                                                           \
        c05_arm(); KFN(p, pos, x); c05_done();                                                                         \
        vf_assert(k_sv_size(p) == NA + 1, "size() after a valid call");                                                \
    }
SV_INS1Q(q_sv_emplace, SITE_static_vector_15, k_sv_emplace)
SV_INS1Q(q_sv_insert_r, SITE_static_vector_16, k_sv_insert_r)
SV_INS1Q(q_sv_insert_l, SITE_static_vector_18, k_sv_insert_l)
// insert(pos, n, x): size() + n <= capacity()
// Known finding C05_insert_fill_count_wraps: the check computes size() + n in size_t; for n > SIZE_MAX - size() the sum wraps, the
// check passes, the vector is filled up to capacity and only then push_back's own check stops the call (object already modified).
Q q_sv_insert_fill()
{
    void* p = sv_make(); i64 pos = nd_pos(); u64 n = vf_nd_u64(); PV x = nd_pv();
    VF_KNOWN(C05_insert_fill_count_wraps, n > ~u64(0) - NA);
    C05_CLAUSE(0, SITE_static_vector_30, pos < 0);
    C05_CLAUSE(1, SITE_static_vector_31, pos > (i64)NA);
    C05_CLAUSE(2, SITE_static_vector_17, n > u64(CAP - NA));
    c05_arm(); k_sv_insert_fill(p, pos, n, x); c05_done();
    vf_assert(k_sv_size(p) == NA + n, "size() after a valid call");
}
// insert(pos, first, last) / move_insert(pos, first, last): [first,last) = [src, src + b)
#define SV_INSRQ(NAME, SITE, KFN)                                                                                      \
    Q NAME()                                                                                                           \
    {                                                                                                                  \
        void* p = sv_make(); void* src = src_make(); i64 pos = nd_pos(); i64 b = nd_last();                            \
        C05_CLAUSE(0, SITE_static_vector_30, pos < 0);                                                                 \
        C05_CLAUSE(1, SITE_static_vector_31, pos > (i64)NA);                                                           \
        C05_CLAUSE(2, SITE_static_vector_32, b < 0);                                                                   \
        C05_CLAUSE(3, SITE, b >= 0 && b > (i64)(CAP - NA));                                                            \
        c05_arm(); KFN(p, pos, src, 0, b); c05_done();                                                                 \
        vf_assert(k_sv_size(p) == NA + (u64)b, "size() after a valid call");                                           \
    }
SV_INSRQ(q_sv_insert_range, SITE_static_vector_19, k_sv_insert_range)
SV_INSRQ(q_sv_move_insert, SITE_static_vector_14, k_sv_move_insert)
// erase(pos): pos must be dereferenceable; erase(first,last): both in [begin,end], first <= last
Q q_sv_erase1()
{
    void* p = sv_make(); i64 pos = nd_pos();
    C05_CLAUSE(0, SITE_static_vector_30, pos < 0);
    C05_CLAUSE(1, SITE_static_vector_31, pos >= (i64)NA);
    C05_ALSO(SITE_static_vector_32); C05_ALSO(S_SET_SIZE); C05_ALSO(SITE_static_vector_10); C05_ALSO(SITE_static_vector_11);
    c05_arm(); k_sv_erase1(p, pos); c05_done();
    vf_assert(k_sv_size(p) == NA - 1, "size() after a valid call");
}
Q q_sv_erase_range()
{
    void* p = sv_make(); i64 f = nd_pos(), l = nd_pos();
    C05_CLAUSE(0, SITE_static_vector_30, f < 0 || l < 0);
    C05_CLAUSE(1, SITE_static_vector_31, f > (i64)NA || l > (i64)NA);
    C05_CLAUSE(2, SITE_static_vector_32, f > l);
    C05_ALSO(S_SET_SIZE); C05_ALSO(SITE_static_vector_10); C05_ALSO(SITE_static_vector_11);
    c05_arm(); k_sv_erase_range(p, f, l); c05_done();
    vf_assert(k_sv_size(p) == NA - (u64)(l - f), "size() after a valid call");
}
// clear(): no precondition; passes through unsafe_destroy / unsafe_set_size, which must stay silent
Q q_sv_clear()
{
    void* p = sv_make();
    C05_ALSO(S_SET_SIZE); C05_ALSO(SITE_static_vector_10); C05_ALSO(SITE_static_vector_11);
    c05_arm(); k_sv_clear(p); c05_done();
    vf_assert(k_sv_size(p) == 0, "size() after clear()");
}
// resize / assign / constructors: the new size must not exceed capacity()
#define SV_COUNTQ(NAME, SITE, CALL)                                                                                    \
    Q NAME()                                                                                                           \
    {                                                                                                                  \
        void* p = sv_make(); u64 n = vf_nd_u64(); PV x = nd_pv(); (void)x;                                             \
        C05_CLAUSE(0, SITE, n > CAP);                                                                                  \
        c05_arm(); CALL; c05_done();                                                                                   \
        vf_assert(k_sv_size(p) == n, "size() after a valid call");                                                     \
    }
SV_COUNTQ(q_sv_resize1, SITE_static_vector_12, k_sv_resize1(p, n))
SV_COUNTQ(q_sv_resize2, SITE_static_vector_29, k_sv_resize2(p, n, x))
SV_COUNTQ(q_sv_assign_fill, SITE_static_vector_26, k_sv_assign_fill(p, n, x))
Q q_sv_assign_range()
{
    void* p = sv_make(); void* src = src_make(); i64 b = nd_last();
    C05_CLAUSE(0, SITE_static_vector_24, b < 0);
    C05_CLAUSE(1, SITE_static_vector_25, b > (i64)CAP);
    c05_arm(); k_sv_assign_range(p, src, 0, b); c05_done();
    vf_assert(k_sv_size(p) == (u64)b, "size() after a valid call");
}
// constructors: the object is created by the call (a block of symbolic bytes before it); only the source block is watched
#define SV_CTORQ(NAME, SITE, CALL)                                                                                     \
    Q NAME()                                                                                                           \
    {                                                                                                                  \
        void* p = d_sym_block(k_sv_sizeof()); u64 n = vf_nd_u64(); PV x = nd_pv(); (void)x;                            \
        C05_CLAUSE(0, SITE, n > CAP);                                                                                  \
        c05_arm(); CALL; c05_done();                                                                                   \
        vf_assert(k_sv_size(p) == n, "size() after construction");                                                     \
    }
SV_CTORQ(q_sv_ctor_n, SITE_static_vector_20, k_sv_ctor_n(p, n))
SV_CTORQ(q_sv_ctor_nv, SITE_static_vector_21, k_sv_ctor_nv(p, n, x))
Q q_sv_ctor_range()
{
    void* p = d_sym_block(k_sv_sizeof()); void* src = src_make(); i64 b = nd_last();
    C05_CLAUSE(0, SITE_static_vector_22, b < 0);
    C05_CLAUSE(1, SITE_static_vector_23, b > (i64)CAP);
    c05_arm(); k_sv_ctor_range(p, src, 0, b); c05_done();
    vf_assert(k_sv_size(p) == (u64)b, "size() after construction");
}

// =====================================================================================================================
// inplace_vector (CAP > 0)
// =====================================================================================================================
#if CAP > 0
static inline void* iv_make()
{
    void* p = d_sym_block(k_iv_sizeof()); k_iv_new(p);
    for (unsigned i = 0; i < NA; i++) k_iv_unchecked_push_back_l(p, nd_pv());
    d_slack(k_iv_data(p), u64(NA) * sizeof(E), u64(CAP) * sizeof(E));
    vf_assert(k_iv_size(p) == NA, "pre-state installed");
    c05_watch0(p, k_iv_sizeof());
    return p;
}
Q q_iv_at()
{
    void* p = iv_make(); u64 i = vf_nd_u64();
    C05_CLAUSE(0, SITE_inplace_vector_5, !(i < NA));
    c05_arm(); (void)k_iv_at(p, i); c05_done();
}
Q q_iv_at_c()
{
    void* p = iv_make(); u64 i = vf_nd_u64();
    C05_CLAUSE(0, SITE_inplace_vector_6, !(i < NA));
    c05_arm(); (void)k_iv_at_c(p, i); c05_done();
}
#define IV_STATEQ(NAME, SITE, VIOL, CALL, NEWSIZE)                                                                     \
    Q NAME()                                                                                                           \
    {                                                                                                                  \
        void* p = iv_make(); PV x = nd_pv(); (void)x;                                                                  \
        C05_CLAUSE(0, SITE, VIOL);                                                                                     \
        C05_ALSO(SITE_inplace_vector_11);                                                                              \
        c05_arm(); CALL; c05_done();                                                                                   \
        vf_assert(k_iv_size(p) == (NEWSIZE), "size() after a valid call");                                             \
    }
IV_STATEQ(q_iv_front, SITE_inplace_vector_1, NA == 0, (void)k_iv_front(p), NA)
IV_STATEQ(q_iv_front_c, SITE_inplace_vector_2, NA == 0, (void)k_iv_front_c(p), NA)
IV_STATEQ(q_iv_back, SITE_inplace_vector_3, NA == 0, (void)k_iv_back(p), NA)
IV_STATEQ(q_iv_back_c, SITE_inplace_vector_4, NA == 0, (void)k_iv_back_c(p), NA)
IV_STATEQ(q_iv_unchecked_emplace_back, SITE_inplace_vector_7, NA == CAP, k_iv_unchecked_emplace_back(p, x), NA + 1)
IV_STATEQ(q_iv_unchecked_push_back_l, SITE_inplace_vector_8, NA == CAP, k_iv_unchecked_push_back_l(p, x), NA + 1)
IV_STATEQ(q_iv_unchecked_push_back_r, SITE_inplace_vector_9, NA == CAP, k_iv_unchecked_push_back_r(p, x), NA + 1)
IV_STATEQ(q_iv_pop_back, SITE_inplace_vector_10, NA == 0, k_iv_pop_back(p), NA - 1)
// no precondition: must never reach the handler (full -> null result)
Q q_iv_try_push_back_l()
{
    void* p = iv_make(); PV x = nd_pv();
    C05_ALSO(SITE_inplace_vector_8); C05_ALSO(SITE_inplace_vector_11); C05_ALSO(SITE_inplace_vector_3);
    c05_arm(); bool r = k_iv_try_push_back_l(p, x); c05_done();
    vf_assert(r == (NA < CAP) && k_iv_size(p) == (NA < CAP ? NA + 1 : NA), "try_push_back(const&) succeeds exactly when not full");
}
Q q_iv_try_push_back_r()
{
    void* p = iv_make(); PV x = nd_pv();
    C05_ALSO(SITE_inplace_vector_9); C05_ALSO(SITE_inplace_vector_11); C05_ALSO(SITE_inplace_vector_3);
    c05_arm(); bool r = k_iv_try_push_back_r(p, x); c05_done();
    vf_assert(r == (NA < CAP) && k_iv_size(p) == (NA < CAP ? NA + 1 : NA), "try_push_back(&&) succeeds exactly when not full");
}
Q q_iv_clear()
{
    void* p = iv_make();
    C05_ALSO(SITE_inplace_vector_11);
    c05_arm(); k_iv_clear(p); c05_done();
    vf_assert(k_iv_size(p) == 0, "size() after clear()");
}
#endif
