import importlib.util
import os

import sys

c05 = sys.modules.get('c05spec_shared')   # one shared instance per process (site extraction is cached in it)
if c05 is None:
    _h = os.path.join(os.path.dirname(os.path.dirname(os.path.abspath(__file__))), 'contracts_common', 'c05spec.py')
    _s = importlib.util.spec_from_file_location('c05spec_shared', _h)
    c05 = importlib.util.module_from_spec(_s)
    sys.modules['c05spec_shared'] = c05
    _s.loader.exec_module(c05)
c05.ensure_header()

PROPERTIES = ['C05', 'C02']
KERNEL_FLAGS = c05.FLAGS
DRIVER_FLAGS = c05.FLAGS
LL2C_FLAGS = ['--ptrcmp-offset']   # iterators before begin() / beyond end() are compared by the library: order them as the machine does
ALIASES = {'S_EMPLACE_BACK': ['SITE_static_vector_1', 'SITE_static_vector_4', 'SITE_static_vector_7'],
           'S_POP_BACK': ['SITE_static_vector_2', 'SITE_static_vector_5', 'SITE_static_vector_8'],
           'S_SET_SIZE': ['SITE_static_vector_3', 'SITE_static_vector_6', 'SITE_static_vector_9']}
INFO = c05.parse_driver(os.path.join(os.path.dirname(os.path.abspath(__file__)), 'driver.cpp'), ALIASES)
KF_INDEX = 'C05_index_cast_to_ptrdiff'
KF_FILL = 'C05_insert_fill_count_wraps'

# entry -> f(cap, na) -> (valid call possible, set of reachable clause indices)
SHAPE = {
    'sv_at': lambda c, n: (n > 0, {0}), 'sv_at_c': lambda c, n: (n > 0, {0}),
    'sv_front': lambda c, n: (n > 0, {0} if n == 0 else set()), 'sv_front_c': lambda c, n: (n > 0, {0} if n == 0 else set()),
    'sv_back': lambda c, n: (n > 0, {0} if n == 0 else set()), 'sv_back_c': lambda c, n: (n > 0, {0} if n == 0 else set()),
    'sv_push_back_l': lambda c, n: (n < c, {0} if n == c else set()), 'sv_push_back_r': lambda c, n: (n < c, {0} if n == c else set()),
    'sv_emplace_back': lambda c, n: (n < c, {0} if n == c else set()), 'sv_pop_back': lambda c, n: (n > 0, {0} if n == 0 else set()),
    'sv_emplace': lambda c, n: (n < c, {0} if n == c else {1, 2}), 'sv_insert_r': lambda c, n: (n < c, {0} if n == c else {1, 2}), 'sv_insert_l': lambda c, n: (n < c, {0} if n == c else {1, 2}),
    'sv_insert_fill': lambda c, n: (True, {0, 1, 2} if c else {2}), 'sv_insert_range': lambda c, n: (True, {0, 1, 2, 3} if c else {2, 3}), 'sv_move_insert': lambda c, n: (True, {0, 1, 2, 3} if c else {2, 3}),
    'sv_erase1': lambda c, n: (n > 0, {0, 1} if c else {1}), 'sv_erase_range': lambda c, n: (True, ({0, 1, 2} if n else {0, 1}) if c else set()), 'sv_clear': lambda c, n: (True, set()),
    'sv_resize1': lambda c, n: (True, {0}), 'sv_resize2': lambda c, n: (True, {0}), 'sv_assign_fill': lambda c, n: (True, {0}), 'sv_assign_range': lambda c, n: (True, {0, 1}),
    'sv_ctor_n': lambda c, n: (True, {0}), 'sv_ctor_nv': lambda c, n: (True, {0}), 'sv_ctor_range': lambda c, n: (True, {0, 1}),
    'iv_at': lambda c, n: (n > 0, {0}), 'iv_at_c': lambda c, n: (n > 0, {0}),
    'iv_front': lambda c, n: (n > 0, {0} if n == 0 else set()), 'iv_front_c': lambda c, n: (n > 0, {0} if n == 0 else set()),
    'iv_back': lambda c, n: (n > 0, {0} if n == 0 else set()), 'iv_back_c': lambda c, n: (n > 0, {0} if n == 0 else set()),
    'iv_unchecked_emplace_back': lambda c, n: (n < c, {0} if n == c else set()), 'iv_unchecked_push_back_l': lambda c, n: (n < c, {0} if n == c else set()),
    'iv_unchecked_push_back_r': lambda c, n: (n < c, {0} if n == c else set()), 'iv_pop_back': lambda c, n: (n > 0, {0} if n == 0 else set()),
    'iv_try_push_back_l': lambda c, n: (True, set()), 'iv_try_push_back_r': lambda c, n: (True, set()), 'iv_clear': lambda c, n: (True, set()),
}
CTORS = ('sv_ctor_n', 'sv_ctor_nv', 'sv_ctor_range')   # no pre-state: NA = 0 only
assert set('q_' + e for e in SHAPE) == set(INFO), sorted(set('q_' + e for e in SHAPE) ^ set(INFO))


def grid(tier, prop):
    """(ELT, CAP, C05SAFE)"""
    if prop == 'C02':
        return [(0, 3, 0)] if tier == 'quick' else [(0, 0, 0), (0, 3, 0), (2, 3, 0)]
    if tier == 'quick':
        return [(0, 0, 0), (0, 1, 0), (0, 3, 0), (2, 2, 1)]
    g = []
    for safe in (0, 1):
        g += [(0, c, safe) for c in (0, 1, 2, 3, 4)] + [(2, c, safe) for c in (0, 1, 2, 3)] + [(1, 2, safe)]
    return g


def queries(tier, prop='C05'):
    ub = prop == 'C02'
    OPEN = c05.open_findings()
    out = []
    for (elt, cap, safe) in grid(tier, prop):
        esz = 8 if elt == 1 else 4
        blk = cap * esz + 16 + (cap + 1) * 8 + 3
        for na in range(cap + 1):
            for e, f in SHAPE.items():
                if e.startswith('iv_') and cap == 0: continue
                if e in CTORS and na != 0: continue
                valid, reach = f(cap, na)
                if ub and not valid: continue
                out.append(dict(entry='q_' + e, cfg={'ELT': elt, 'CAP': cap, 'NA': na, 'C05SAFE': safe}, unwind=cap + 4,
                                unwindset=c05.unwindset(blk, ('d_slack',)), solver=['cadical', 'minisat'], budget=300, ub=ub, nofunc=ub,
                                optional_witness=c05.optional(valid, reach, ub)))
    return out


def _note(tier):
    return c05.bounds_note(INFO, sorted({q['entry'] for q in queries(tier)}))


BOUNDS = {
    'quick': 'static_vector<int,CAP> CAP in {0,1,3} (zero / trivial storage) under TETL_ENABLE_CONTRACT_CHECKS and static_vector<NT,2> (non-trivial storage) under _SAFE, inplace_vector likewise (CAP > 0); '
             'every pre-size NA in 0..CAP (enumerated, elements and unused storage symbolic); one operation per query with unconstrained arguments: index/count/new size any 64-bit value, '
             'iterator = begin() + pos with pos in [-2^20, 2^20], ranges [src, src+b) over a block of CAP+1 elements with b in [-2^20, CAP+1]. ' + _note('quick'),
    'thorough': 'int: CAP 0..4, NT: CAP 0..3, POD{int,int}: CAP 2; both contract configurations; otherwise as quick. ' + _note('thorough'),
}
ASSUMPTIONS = [
    'C05/vec: documented preconditions: operator[] i < size(); front/back/pop_back non-empty; push_back/emplace_back/emplace/insert(pos,x) not full; insert/emplace/erase position in [begin(), end()] '
    '(erase(pos): pos dereferenceable); insert(pos,n,x) size()+n <= capacity(); insert/move_insert/assign/constructor from [first,last): first <= last and resulting size <= capacity(); '
    'erase(first,last): both in [begin(), end()], first <= last; resize/assign(n)/constructor(n) n <= capacity(); inplace_vector: front/back/pop_back non-empty, operator[] n < size(), unchecked_* not full',
    'C05/vec: iterator arguments are formed as begin() + pos with |pos| <= 2^20 elements (an iterator "at max" is not formable); for CAP == 0 begin() is a null pointer and only pos == 0 is used; range ends likewise; both ends of a source range lie in (or before) one exact-size block of CAP+1 elements',
    'C05/vec: static_vector range operations only compile for pointer iterators (assert_valid_iterator_pair static_asserts is_pointer_v), so the size of a range is always visible from the arguments',
    'C05/vec: after a valid call only size() is compared (C01 covers the functional behaviour); try_push_back / clear have no precondition and must never reach the handler',
]
