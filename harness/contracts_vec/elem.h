// Element types of the contracts_vec family (copy of vec_step/elem.h) (shared by kernel.cpp and driver.cpp; contains no tetl code).
// ELT selects the element type, PV is the scalar "payload" that travels through the kernel ABI:
//   ELT=0  int                         -> trivial storage of static_vector, sufficiently_trivial uninitialized_array
//   ELT=1  POD struct {int a; int b;}  -> trivial storage, 8-byte elements, user-defined == and <
//   ELT=2  NT  (user-provided default/copy/move ctor, copy/move assignment, destructor) -> non-trivial storage;
//         a moved-from NT holds NT_MOVED, a destroyed one NT_DEAD, so stale reads show up as wrong values
#ifndef VEC_ELEM_H
#define VEC_ELEM_H
#include <stdint.h>
#ifndef ELT
#define ELT 0
#endif
#if ELT == 0
using E = int;
using PV = uint32_t;
static inline E mk(PV x) { return (E)x; }
static inline PV rd(E const& e) { return (PV)e; }
static inline bool pv_eq(PV x, PV y) { return x == y; }
static inline bool pv_less(PV x, PV y) { return (int32_t)x < (int32_t)y; }
#elif ELT == 1
struct E {
    int a;
    int b;
    friend bool operator==(E const& x, E const& y) { return x.a == y.a && x.b == y.b; }
    friend bool operator<(E const& x, E const& y) { return x.a < y.a || (x.a == y.a && x.b < y.b); }
};
using PV = uint64_t;
static inline E mk(PV x) { E e; e.a = (int)(uint32_t)x; e.b = (int)(uint32_t)(x >> 32); return e; }
static inline PV rd(E const& e) { return (PV)(uint32_t)e.a | ((PV)(uint32_t)e.b << 32); }
static inline bool pv_eq(PV x, PV y) { return x == y; }
static inline bool pv_less(PV x, PV y)
{
    int32_t xa = (int32_t)(uint32_t)x, ya = (int32_t)(uint32_t)y, xb = (int32_t)(uint32_t)(x >> 32), yb = (int32_t)(uint32_t)(y >> 32);
    return xa < ya || (xa == ya && xb < yb);
}
#else
#define NT_MOVED 0x4d4f5645
#define NT_DEAD 0x44454144
struct E {
    int v;
    E() noexcept : v(0) {}
    explicit E(int x) noexcept : v(x) {}
    E(E const& o) noexcept : v(o.v) {}
    E(E&& o) noexcept : v(o.v) { o.v = NT_MOVED; }
    E& operator=(E const& o) noexcept { v = o.v; return *this; }
    E& operator=(E&& o) noexcept { int t = o.v; o.v = NT_MOVED; v = t; return *this; }
    ~E() { v = NT_DEAD; }
    friend bool operator==(E const& x, E const& y) { return x.v == y.v; }
    friend bool operator<(E const& x, E const& y) { return x.v < y.v; }
};
using PV = uint32_t;
static inline E mk(PV x) { return E((int)x); }
static inline PV rd(E const& e) { return (PV)e.v; }
static inline bool pv_eq(PV x, PV y) { return x == y; }
static inline bool pv_less(PV x, PV y) { return (int32_t)x < (int32_t)y; }
#endif
#endif
