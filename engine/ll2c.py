#!/usr/bin/env python3
"""LLVM-16 textual IR -> C translator (byte-addressed memory model) for CBMC.

Usage: ll2c.py in.ll --prefix K -o out.c

Every LLVM value becomes a C local of unsigned integer / float / u8* type; all
integer arithmetic is emitted in unsigned C types (defined behaviour); memory is
accessed through typed casts of byte pointers.  Symbols with internal /
linkonce linkage get the per-TU prefix so several translated TUs can be linked
into one CBMC model.  See DESIGN.md 1.1-1.3.
"""
import re, sys, struct

TOK = re.compile(r'''
    (?P<ws>\s+|;[^\n]*)
  | (?P<str>c"(?:[^"\\]|\\[0-9A-Fa-f]{2}|\\\\)*")
  | (?P<lid>%(?:"[^"]*"|[-A-Za-z0-9$._]+))
  | (?P<gid>@(?:"[^"]*"|[-A-Za-z0-9$._]+))
  | (?P<md>![A-Za-z0-9._]*)
  | (?P<attr>\#[0-9]+)
  | (?P<hex>0x[KLMHR]?[0-9A-Fa-f]+)
  | (?P<num>-?[0-9]+\.[0-9]*(?:e[+-]?[0-9]+)?)
  | (?P<int>-?[0-9]+)
  | (?P<dots>\.\.\.)
  | (?P<word>[A-Za-z_][A-Za-z0-9_.]*)
  | (?P<q>"[^"]*")
  | (?P<p>[(),\[\]{}<>=*:|])
''', re.X)

def tokenize(s):
    out = []
    pos = 0
    n = len(s)
    while pos < n:
        m = TOK.match(s, pos)
        if not m:
            raise SyntaxError("tok at %r" % s[pos:pos+40])
        pos = m.end()
        k = m.lastgroup
        if k == 'ws':
            continue
        out.append((k, m.group(k)))
    return out

# ---------------- types
class Ty:
    pass
class IntTy(Ty):
    def __init__(s, bits): s.bits = bits
    def __repr__(s): return 'i%d' % s.bits
class FloatTy(Ty):
    def __init__(s, k): s.k = k
    def __repr__(s): return s.k
class PtrTy(Ty):
    def __repr__(s): return 'ptr'
class VoidTy(Ty):
    def __repr__(s): return 'void'
class ArrTy(Ty):
    def __init__(s, n, el): s.n = n; s.el = el
    def __repr__(s): return '[%d x %r]' % (s.n, s.el)
class StructTy(Ty):
    def __init__(s, els, packed, name=None): s.els = els; s.packed = packed; s.name = name
    def __repr__(s): return s.name or ('{%s}' % ','.join(map(repr, s.els)))
class NamedTy(Ty):
    def __init__(s, name): s.name = name
    def __repr__(s): return s.name
class FnTy(Ty):
    def __init__(s, ret, args, va): s.ret = ret; s.args = args; s.va = va
class LabelTy(Ty): pass
class MetaTy(Ty): pass

class Module:
    def __init__(s):
        s.named = {}
        s.globals = {}
        s.funcs = {}
        s.decls = {}
        s.local_globals = set()

M = Module()

def resolve(t):
    while isinstance(t, NamedTy):
        t = M.named[t.name]
    return t

def sizeof(t):
    t = resolve(t)
    if isinstance(t, IntTy):
        b = t.bits
        return 1 if b <= 8 else 2 if b <= 16 else 4 if b <= 32 else 8 if b <= 64 else 16
    if isinstance(t, FloatTy):
        return {'float': 4, 'double': 8, 'x86_fp80': 16, 'half': 2}[t.k]
    if isinstance(t, PtrTy): return 8
    if isinstance(t, ArrTy): return t.n * sizeof(t.el)
    if isinstance(t, StructTy):
        offs, sz = layout(t)
        return sz
    raise Exception("sizeof %r" % t)

def alignof(t):
    t = resolve(t)
    if isinstance(t, (IntTy, FloatTy, PtrTy)): return min(sizeof(t), 16)
    if isinstance(t, ArrTy): return alignof(t.el)
    if isinstance(t, StructTy):
        if t.packed: return 1
        return max([alignof(e) for e in t.els] + [1])
    raise Exception("alignof %r" % t)

def layout(t):
    off = 0
    offs = []
    for e in t.els:
        a = 1 if t.packed else alignof(e)
        off = (off + a - 1) // a * a
        offs.append(off)
        off += sizeof(e)
    a = alignof(t)
    off = (off + a - 1) // a * a
    return offs, off

class P:
    def __init__(s, toks): s.t = toks; s.i = 0
    def peek(s, k=0): return s.t[s.i + k] if s.i + k < len(s.t) else ('eof', '')
    def next(s): x = s.t[s.i]; s.i += 1; return x
    def accept(s, v):
        if s.peek()[1] == v:
            s.i += 1; return True
        return False
    def expect(s, v):
        x = s.next()
        if x[1] != v: raise SyntaxError("expected %r got %r near %r" % (v, x, s.t[max(0,s.i-8):s.i+5]))
    def type(s):
        k, v = s.next()
        if v == 'void': t = VoidTy()
        elif k == 'word' and re.fullmatch(r'i[0-9]+', v): t = IntTy(int(v[1:]))
        elif v in ('float', 'double', 'x86_fp80', 'half'): t = FloatTy(v)
        elif v == 'ptr':
            t = PtrTy()
            if s.peek()[1] == 'addrspace':
                s.next(); s.expect('('); s.next(); s.expect(')')
        elif v == 'label': t = LabelTy()
        elif v == 'metadata': t = MetaTy()
        elif v == '[':
            n = int(s.next()[1]); s.expect('x'); el = s.type(); s.expect(']'); t = ArrTy(n, el)
        elif v == '{':
            els = []
            if not s.accept('}'):
                while True:
                    els.append(s.type())
                    if s.accept('}'): break
                    s.expect(',')
            t = StructTy(els, False)
        elif v == '<':
            if s.accept('{'):
                els = []
                if not s.accept('}'):
                    while True:
                        els.append(s.type())
                        if s.accept('}'): break
                        s.expect(',')
                s.expect('>')
                t = StructTy(els, True)
            else:
                raise SyntaxError("vector types unsupported")
        elif k == 'lid': t = NamedTy(v)
        elif v == 'opaque': t = StructTy([], False)
        else: raise SyntaxError("type? %r %r" % (k, v))
        # function type suffix
        while s.peek()[1] == '(' :
            # function type: ret (args)
            s.next()
            args = []; va = False
            if not s.accept(')'):
                while True:
                    if s.accept('...'): va = True
                    else: args.append(s.type())
                    if s.accept(')'): break
                    s.expect(',')
            t = FnTy(t, args, va)
        return t

PARAM_ATTRS = {'noundef','allocptr','allocalign','dead_on_unwind','writable','nonnull','nocapture','readonly','writeonly','noalias','signext','zeroext','returned','immarg','inreg','nest','nofree','readnone','swiftself','noalias','inalloca','swifterror'}
PARAM_ATTRS_ARG = {'align','dereferenceable','dereferenceable_or_null'}
PARAM_ATTRS_TY = {'byval','sret','byref','elementtype','preallocated'}

def skip_param_attrs(p):
    """skips parameter attributes; returns the byval type if one was present"""
    byval = None
    while True:
        k, v = p.peek()
        if v in PARAM_ATTRS: p.next()
        elif v in PARAM_ATTRS_ARG:
            p.next()
            if p.accept('('): p.next(); p.expect(')')
            else: p.next()
        elif v in PARAM_ATTRS_TY:
            p.next(); p.expect('('); t = p.type(); p.expect(')')
            if v == 'byval': byval = t
        elif v in ('nofpclass', 'range', 'captures', 'memory', 'initializes'):
            p.next(); p.expect('(')
            depth = 1
            while depth:
                x = p.next()[1]
                if x == '(': depth += 1
                elif x == ')': depth -= 1
        else: break
    return byval

# ---- values: represented as tuples
# ('int', val) ('float', pyfloat/hexstr) ('null',) ('undef',) ('zero',) ('local', name) ('global', name)
# ('cstr', bytes) ('agg', [ (ty,val)... ]) ('gepc', srcty, [(ty,val)...]) ('castc', op, (ty,val), toty)

def parse_value(p, ty):
    k, v = p.next()
    if k == 'int': return ('int', int(v))
    if k == 'num': return ('float', float(v))
    if k == 'hex': return ('fhex', v)
    if v == 'true': return ('int', 1)
    if v == 'false': return ('int', 0)
    if v == 'null': return ('null',)
    if v in ('undef', 'poison'): return ('undef',)
    if v == 'zeroinitializer': return ('zero',)
    if k == 'lid': return ('local', v)
    if k == 'gid': return ('global', v)
    if k == 'str': return ('cstr', decode_cstr(v))
    if v == '{' or v == '[':
        close = '}' if v == '{' else ']'
        els = []
        if not p.accept(close):
            while True:
                t = p.type(); els.append((t, parse_value(p, t)))
                if p.accept(close): break
                p.expect(',')
        return ('agg', els)
    if v == '<':
        p.expect('{')
        els = []
        if not p.accept('}'):
            while True:
                t = p.type(); els.append((t, parse_value(p, t)))
                if p.accept('}'): break
                p.expect(',')
        p.expect('>')
        return ('agg', els)
    if v == 'getelementptr':
        while p.peek()[1] in ('inbounds',): p.next()
        p.expect('(')
        st = p.type(); p.expect(',')
        ops = []
        while True:
            t = p.type(); ops.append((t, parse_value(p, t)))
            if p.accept(')'): break
            p.expect(',')
        return ('gepc', st, ops)
    if v in ('ptrtoint', 'inttoptr', 'bitcast', 'trunc', 'zext', 'sext', 'addrspacecast'):
        p.expect('(')
        t = p.type(); val = parse_value(p, t); p.expect('to'); to = p.type(); p.expect(')')
        return ('castc', v, (t, val), to)
    if v in ('add', 'sub', 'mul', 'xor', 'and', 'or', 'shl', 'lshr', 'ashr'):
        while p.peek()[1] in ('nsw', 'nuw', 'exact'): p.next()
        p.expect('(')
        t1 = p.type(); a = parse_value(p, t1); p.expect(',')
        t2 = p.type(); b = parse_value(p, t2); p.expect(')')
        return ('binc', v, (t1, a), (t2, b))
    raise SyntaxError("value? %r %r" % (k, v))

def decode_cstr(v):
    s = v[2:-1]
    out = bytearray(); i = 0
    while i < len(s):
        if s[i] == '\\':
            if s[i+1] == '\\': out.append(92); i += 2
            else: out.append(int(s[i+1:i+3], 16)); i += 3
        else: out.append(ord(s[i])); i += 1
    return bytes(out)

class Inst:
    def __init__(s, **kw): s.__dict__.update(kw)

class Func:
    def __init__(s): s.blocks = []; s.params = []

def split_toplevel(text):
    """yield logical top-level entities"""
    lines = text.split('\n')
    i = 0
    while i < len(lines):
        l = lines[i]
        if l.startswith('define'):
            body = [l]; i += 1
            while not lines[i].startswith('}'):
                body.append(lines[i]); i += 1
            body.append('}')
            yield ('define', body)
        elif l.startswith('declare'): yield ('declare', [l])
        elif l.startswith('%') and ' = type ' in l: yield ('type', [l])
        elif l.startswith('@'): yield ('global', [l])
        i += 1

FN_ATTR_WORDS = None

LOCAL_LINKAGE = {'linkonce_odr','internal','private','weak_odr','linkonce','weak','available_externally'}

def parse_fn_header(p):
    # after 'define'/'declare': linkage etc. until type
    local = False
    while True:
        k, v = p.peek()
        if v in LOCAL_LINKAGE: local = True
        if v in ('dso_local','linkonce_odr','internal','private','external','weak_odr','weak','available_externally','hidden','protected','default','unnamed_addr','local_unnamed_addr','noundef','nonnull','zeroext','signext','noalias','fastcc','ccc','common','dso_preemptable'):
            p.next()
        elif v in ('align','dereferenceable','dereferenceable_or_null'):
            p.next()
            if p.accept('('): p.next(); p.expect(')')
            else: p.next()
        else: break
    ret = p.type()
    # parse ret attrs that came before type already handled; now name
    k, name = p.next()
    assert k == 'gid', (k, name)
    p.expect('(')
    params = []; va = False
    if not p.accept(')'):
        while True:
            if p.accept('...'): va = True
            else:
                t = p.type(); bv = skip_param_attrs(p)
                nm = None
                if p.peek()[0] == 'lid': nm = p.next()[1]
                params.append((t, nm, bv))
            if p.accept(')'): break
            p.expect(',')
    return ret, name, params, va, local

def parse_module(text):
    for kind, body in split_toplevel(text):
        if kind == 'type':
            p = P(tokenize(body[0]))
            name = p.next()[1]; p.expect('='); p.expect('type')
            t = p.type()
            if isinstance(t, StructTy): t.name = name
            M.named[name] = t
    for kind, body in split_toplevel(text):
        if kind == 'global':
            p = P(tokenize(body[0]))
            name = p.next()[1]; p.expect('=')
            const = False; glocal = False
            while True:
                k, v = p.peek()
                if v in ('private','internal','linkonce_odr','weak_odr','external','dso_local','unnamed_addr','local_unnamed_addr','hidden','weak','common','available_externally','thread_local'):
                    if v in LOCAL_LINKAGE: glocal = True
                    p.next()
                elif v == 'constant': const = True; p.next(); break
                elif v == 'global': p.next(); break
                else: raise SyntaxError("global? %r" % (body[0][:100],))
            t = p.type()
            init = None
            if p.peek()[0] != 'eof' and p.peek()[1] != ',':
                init = parse_value(p, t)
            M.globals[name] = (t, init, const)
            if glocal: M.local_globals.add(name)
        elif kind == 'declare':
            p = P(tokenize(body[0])); p.expect('declare')
            ret, name, params, va, _l = parse_fn_header(p)
            M.decls[name] = (ret, [t for t, _, _ in params], va)
        elif kind == 'define':
            p = P(tokenize(body[0])); p.expect('define')
            ret, name, params, va, local = parse_fn_header(p)
            f = Func(); f.ret = ret; f.name = name; f.va = va; f.local = local
            # unnamed params get numbers
            cnt = 0
            ps = []; f.byval = {}
            for t, nm, bv in params:
                if nm is None: nm = '%%%d' % cnt
                if re.fullmatch(r'%[0-9]+', nm): cnt = int(nm[1:]) + 1
                ps.append((t, nm))
                if bv is not None: f.byval[nm] = bv
            f.params = ps
            cur = None
            first = True
            joined = []
            acc = None
            for l in body[1:-1]:
                if acc is not None:
                    acc += ' ' + l.strip()
                    if l.strip().startswith(']'):
                        joined.append('  ' + acc); acc = None
                    continue
                if l.strip().startswith('switch ') and not l.rstrip().endswith(']'):
                    acc = l.strip(); continue
                joined.append(l)
            for l in joined:
                ls = l.strip()
                if not ls or ls.startswith(';'): continue
                m = re.match(r'^("[^"]*"|[-A-Za-z0-9$._]+):', l)
                if m and not l.startswith(' '):
                    cur = {'name': '%' + m.group(1), 'insts': []}
                    f.blocks.append(cur); continue
                if cur is None:
                    cur = {'name': '%%%d' % cnt, 'insts': []}; f.blocks.append(cur)
                cur['insts'].append(parse_inst(ls))
            M.funcs[name] = f

def strip_meta(toks):
    # remove trailing ", !md !n" sequences and attribute groups
    out = []
    i = 0
    while i < len(toks):
        k, v = toks[i]
        if k == 'md':
            # drop preceding comma
            if out and out[-1][1] == ',': out.pop()
            # skip md name and following md ref / or !{...}
            i += 1
            if i < len(toks) and toks[i][0] == 'md': i += 1
            continue
        if k == 'attr': i += 1; continue
        out.append(toks[i]); i += 1
    return out

FAST = {'nnan','ninf','nsz','arcp','contract','afn','reassoc','fast'}

def parse_typed(p):
    t = p.type(); skip_param_attrs(p); v = parse_value(p, t); return (t, v)

def parse_inst(l):
    p = P(strip_meta(tokenize(l)))
    dst = None
    if p.peek()[0] == 'lid' and p.peek(1)[1] == '=':
        dst = p.next()[1]; p.next()
    k, op = p.next()
    I = Inst(op=op, dst=dst, text=l)
    if op in ('tail', 'musttail', 'notail'):
        k, op = p.next(); I.op = op
    if op in ('add','sub','mul','udiv','sdiv','urem','srem','shl','lshr','ashr','and','or','xor','fadd','fsub','fmul','fdiv','frem'):
        I.flags = set()
        while p.peek()[1] in ('nsw','nuw','exact') or p.peek()[1] in FAST: I.flags.add(p.next()[1])
        I.ty = p.type(); I.a = parse_value(p, I.ty); p.expect(','); I.b = parse_value(p, I.ty)
    elif op == 'fneg':
        while p.peek()[1] in FAST: p.next()
        I.ty = p.type(); I.a = parse_value(p, I.ty)
    elif op in ('icmp', 'fcmp'):
        while p.peek()[1] in FAST: p.next()
        I.pred = p.next()[1]; I.ty = p.type(); I.a = parse_value(p, I.ty); p.expect(','); I.b = parse_value(p, I.ty)
    elif op in ('trunc','zext','sext','fptrunc','fpext','fptoui','fptosi','uitofp','sitofp','ptrtoint','inttoptr','bitcast','addrspacecast'):
        I.fty = p.type(); I.a = parse_value(p, I.fty); p.expect('to'); I.ty = p.type()
    elif op == 'select':
        while p.peek()[1] in FAST: p.next()
        I.c = parse_typed(p); p.expect(','); I.a = parse_typed(p); p.expect(','); I.b = parse_typed(p); I.ty = I.a[0]
    elif op == 'phi':
        while p.peek()[1] in FAST: p.next()
        I.ty = p.type(); I.inc = []
        while True:
            p.expect('['); v = parse_value(p, I.ty); p.expect(','); lb = p.next()[1]; p.expect(']')
            I.inc.append((v, lb))
            if not p.accept(','): break
    elif op == 'br':
        if p.peek()[1] == 'label':
            p.next(); I.targets = [p.next()[1]]; I.cond = None
        else:
            I.cond = parse_typed(p); p.expect(','); p.expect('label'); t1 = p.next()[1]; p.expect(','); p.expect('label'); t2 = p.next()[1]
            I.targets = [t1, t2]
    elif op == 'switch':
        I.v = parse_typed(p); p.expect(','); p.expect('label'); I.default = p.next()[1]; p.expect('[')
        I.cases = []
        while not p.accept(']'):
            t = p.type(); v = parse_value(p, t); p.expect(','); p.expect('label'); I.cases.append((v, p.next()[1]))
    elif op == 'ret':
        I.ty = p.type()
        I.a = None if isinstance(I.ty, VoidTy) else parse_value(p, I.ty)
    elif op == 'unreachable': pass
    elif op == 'alloca':
        while p.peek()[1] in ('inalloca',): p.next()
        I.aty = p.type(); I.n = None
        while p.accept(','):
            if p.peek()[1] == 'align': p.next(); I.align = int(p.next()[1])
            else: I.n = parse_typed(p)
    elif op == 'load':
        while p.peek()[1] in ('volatile','atomic'): p.next()
        I.ty = p.type(); p.expect(','); I.p = parse_typed(p)
    elif op == 'store':
        while p.peek()[1] in ('volatile','atomic'): p.next()
        I.v = parse_typed(p); p.expect(','); I.p = parse_typed(p)
    elif op == 'getelementptr':
        while p.peek()[1] in ('inbounds',): p.next()
        I.sty = p.type(); p.expect(','); I.base = parse_typed(p); I.idx = []
        while p.accept(','):
            if p.peek()[1] == 'align': break
            I.idx.append(parse_typed(p))
    elif op == 'call':
        while p.peek()[1] in FAST or p.peek()[1] in ('fastcc','ccc'): p.next()
        skip_param_attrs(p)
        I.rty = p.type()
        if isinstance(I.rty, FnTy): I.fnty = I.rty; I.rty = I.rty.ret
        I.callee = parse_value(p, None)
        p.expect('('); I.args = []; I.meta = []
        if not p.accept(')'):
            while True:
                t = p.type(); skip_param_attrs(p)
                if isinstance(t, MetaTy):
                    # metadata arg: skip tokens until , or ) (text kept in I.meta: predicate / exception mode of constrained FP intrinsics)
                    depth = 0
                    mt = []
                    while not (depth == 0 and p.peek()[1] in (',', ')')):
                        if p.peek()[1] == '(': depth += 1
                        if p.peek()[1] == ')': depth -= 1
                        mt.append(str(p.next()[1]))
                    I.meta.append(''.join(mt))
                    I.args.append((t, None))
                else:
                    I.args.append((t, parse_value(p, t)))
                if p.accept(')'): break
                p.expect(',')
    elif op in ('extractvalue',):
        I.agg = parse_typed(p); I.idx = []
        while p.accept(','): I.idx.append(int(p.next()[1]))
    elif op == 'insertvalue':
        I.agg = parse_typed(p); p.expect(','); I.v = parse_typed(p); I.idx = []
        while p.accept(','): I.idx.append(int(p.next()[1]))
    elif op == 'freeze':
        I.ty = p.type(); I.a = parse_value(p, I.ty)
    else:
        raise SyntaxError("inst? %s" % l)
    return I

# ------------------------------------------------------------ emission
def cname(n):
    n = n[1:]
    if n.startswith('"'): n = n[1:-1]
    return re.sub(r'[^A-Za-z0-9_]', lambda m: '_%02x' % ord(m.group(0)), n)

PREFIX = 'T'
DIVREM_NARROW = False   # --divrem-narrow (opt-in per harness family via LL2C_FLAGS in spec.py)
PTRCMP_OFFSET = False   # --ptrcmp-offset (opt-in): ordered pointer comparisons and ptrtoint use base + SIGNED offset (a pointer formed before the start of a block orders below it and differences come out negative, as on the real machine)
def lname(n): return 'v_' + cname(n)
def gsym(n):
    """C symbol of global n: shared name for external linkage, prefixed for TU-local"""
    if n in M.local_globals: return PREFIX + '_g_' + cname(n)
    c = cname(n)
    return c if re.fullmatch(r'[A-Za-z_][A-Za-z0-9_]*', n[1:]) else 'g_' + c
def gname(n): return '((ptr_t)&%s)' % gsym(n)
def fname(n):
    c = cname(n)
    if n in M.funcs and M.funcs[n].local: return PREFIX + '_' + c
    return c if re.fullmatch(r'[A-Za-z_][A-Za-z0-9_]*', n[1:]) else 'f_' + c

agg_types = {}
def cty(t):
    t = resolve(t)
    if isinstance(t, IntTy):
        if t.bits == 1: return 'u8'
        s = sizeof(t) * 8
        return {8:'u8',16:'u16',32:'u32',64:'u64',128:'u128'}[s]
    if isinstance(t, FloatTy): return {'float':'float','double':'double','x86_fp80':'long double'}[t.k]
    if isinstance(t, PtrTy): return 'ptr_t'
    if isinstance(t, VoidTy): return 'void'
    if isinstance(t, (StructTy, ArrTy)):
        key = repr(flat(t))
        if key not in agg_types:
            agg_types[key] = ('%s_agg%d' % (PREFIX, len(agg_types)), t)
        return 'struct ' + agg_types[key][0]
    raise Exception("cty %r" % t)

def flat(t):
    t = resolve(t)
    if isinstance(t, StructTy): return ('S', t.packed, tuple(flat(e) for e in t.els))
    if isinstance(t, ArrTy): return ('A', t.n, flat(t.el))
    return repr(t)

def sty(bits):  # signed C type
    return {8:'s8',16:'s16',32:'s32',64:'s64',128:'s128'}[bits]

def mask(t, e):
    t = resolve(t)
    if isinstance(t, IntTy) and t.bits not in (8,16,32,64,128):
        if t.bits == 1: return '((%s)&1)' % e
        return '((%s)&(((%s)1<<%d)-1))' % (e, cty(t), t.bits)
    return e

def sext_expr(t, e):
    """expression of signed C type holding sign-extended value of iN e"""
    t = resolve(t)
    sz = sizeof(t) * 8
    if t.bits == sz: return '((%s)(%s))' % (sty(sz), e)
    sh = sz - t.bits
    return '((%s)((%s)((%s)(%s) << %d)) >> %d)' % (sty(sz), sty(sz), cty(t), e, sh, sh)

class FE:
    def __init__(s, f): s.f = f; s.tys = {}; s.out = []
    def val(s, t, v):
        k = v[0]
        if k == 'int':
            rt = resolve(t)
            if isinstance(rt, IntTy):
                x = v[1] & ((1 << rt.bits) - 1)
                if rt.bits > 64:
                    return '((((u128)%dULL)<<64)|(u128)%dULL)' % (x >> 64, x & (2**64-1))
                return '((%s)%dULL)' % (cty(t), x)
            raise Exception("int for %r" % t)
        if k == 'float':
            rt = resolve(t)
            return '((%s)%r)' % (cty(t), v[1])
        if k == 'fhex':
            rt = resolve(t)
            h = v[1]
            if rt.k == 'float' or rt.k == 'double':
                d = struct.unpack('>d', bytes.fromhex(h[2:].rjust(16, '0')))[0]
                if d != d: return '((%s)__builtin_nan(""))' % cty(t) if False else '((%s)(0.0/0.0))' % cty(t)
                if d in (float('inf'), float('-inf')): return '((%s)(%s1.0/0.0))' % (cty(t), '-' if d < 0 else '')
                return '((%s)%s)' % (cty(t), d.hex())
            raise Exception("fhex %r" % (v,))
        if k == 'null': return '((ptr_t)0)'
        if k == 'undef':
            rt = resolve(t)
            if isinstance(rt, (StructTy, ArrTy)): return '(%s){0}' % cty(t) if False else 'undef_%s()' % agg_nondet(t)
            if isinstance(rt, PtrTy): return 'll_undef_ptr()'
            if isinstance(rt, FloatTy): return 'll_undef_%s()' % rt.k
            return mask(t, 'll_undef_%s()' % cty(t))
        if k == 'zero':
            rt = resolve(t)
            if isinstance(rt, (StructTy, ArrTy)): return 'zero_%s()' % agg_nondet(t)
            if isinstance(rt, PtrTy): return '((ptr_t)0)'
            return '((%s)0)' % cty(t)
        if k == 'local': return lname(v[1])
        if k == 'global':
            if v[1] in M.funcs or v[1] in M.decls: return '((ptr_t)&%s)' % fname(v[1])
            return gname(v[1])
        if k == 'gepc':
            base = s.val(v[2][0][0], v[2][0][1])
            off = const_gep_off(v[1], v[2][1:])
            return '(%s + %d)' % (base, off)
        if k == 'castc':
            if v[1] in ('bitcast', 'addrspacecast'): return s.val(v[2][0], v[2][1])
            if v[1] == 'ptrtoint': return '((%s)(u64)%s)' % (cty(v[3]), s.val(v[2][0], v[2][1]))
            if v[1] == 'inttoptr': return '((ptr_t)(u64)%s)' % s.val(v[2][0], v[2][1])
        if k == 'agg' and isinstance(resolve(t), (StructTy, ArrTy)):
            # aggregate constant used as an instruction operand (e.g. `select i1 %c, { i64, i32 } { i64 0, i32 poison }, ...`): C compound literal
            return '((%s){ %s })' % (cty(t), ', '.join('.f%d = %s' % (i, s.val(et, ev)) for i, (et, ev) in enumerate(v[1])))
        raise Exception("val %r" % (v,))

def agg_nondet(t):
    return cty(t).replace('struct ', '')

def const_gep_off(sty_, idx):
    off = 0
    t = sty_
    first = True
    for (it, iv) in idx:
        assert iv[0] == 'int', iv
        i = iv[1]
        if first:
            off += i * sizeof(t); first = False
        else:
            rt = resolve(t)
            if isinstance(rt, StructTy):
                offs, _ = layout(rt); off += offs[i]; t = rt.els[i]
            else:
                off += i * sizeof(rt.el); t = rt.el
    return off

def emit_func(f):
    fe = FE(f)
    out = []
    # collect value types
    tys = {}
    for t, n in f.params: tys[n] = t
    for b in f.blocks:
        for I in b['insts']:
            if I.dst:
                if I.op == 'alloca': tys[I.dst] = PtrTy()
                elif I.op in ('icmp', 'fcmp'): tys[I.dst] = IntTy(1)
                elif I.op == 'getelementptr': tys[I.dst] = PtrTy()
                elif I.op == 'call': tys[I.dst] = I.rty
                elif I.op == 'extractvalue':
                    t = I.agg[0]
                    for i in I.idx:
                        rt = resolve(t); t = rt.els[i] if isinstance(rt, StructTy) else rt.el
                    tys[I.dst] = t
                elif I.op == 'insertvalue': tys[I.dst] = I.agg[0]
                else: tys[I.dst] = I.ty
    sig = '%s%s %s(%s)' % ('static ' if f.local else '', cty(f.ret), fname(f.name), ', '.join('%s %s' % (cty(t), lname(n)) for t, n in f.params) or 'void')
    out.append(sig + ' {')
    for n, bt in f.byval.items():
        sz = max(1, sizeof(bt))
        out.append('  _Alignas(16) u8 %s_byval[%d]; ll_memcpy(%s_byval, %s, %d); %s = %s_byval;' % (lname(n), sz, lname(n), lname(n), sz, lname(n), lname(n)))
    for n, t in tys.items():
        if any(n == pn for _, pn in f.params): continue
        out.append('  %s %s;' % (cty(t), lname(n)))
    # phi temporaries
    phis = {}
    for b in f.blocks:
        for I in b['insts']:
            if I.op == 'phi':
                out.append('  %s %s_phi;' % (cty(I.ty), lname(I.dst)))
    # allocas as arrays
    for b in f.blocks:
        for I in b['insts']:
            if I.op == 'alloca':
                assert I.n is None or I.n[1][0] == 'int', "dynamic alloca"
                n = 1 if I.n is None else I.n[1][1]
                sz = max(1, sizeof(I.aty) * n)
                out.append('  _Alignas(%d) u8 %s_mem[%d];' % (max(getattr(I, 'align', 1), 1), lname(I.dst), sz))
    V = fe.val
    def phi_moves(frm, to):
        tb = blockmap[to]
        moves = []
        for I in tb['insts']:
            if I.op != 'phi': break
            for v, lb in I.inc:
                if lb == frm:
                    moves.append('%s_phi = %s;' % (lname(I.dst), V(I.ty, v)))
                    break
        return ' '.join(moves)
    blockmap = {b['name']: b for b in f.blocks}
    for bi, b in enumerate(f.blocks):
        out.append(' L_%s: ;' % cname(b['name']))
        blk_divs = {}   # (op, type, a, b) -> C name of the quotient already computed in this block (--divrem-narrow)
        for I in b['insts']:
            d = lname(I.dst) if I.dst else None
            op = I.op
            if op == 'phi':
                out.append('  %s = %s_phi;' % (d, d)); continue
            if op in ('add','sub','mul','and','or','xor'):
                c = {'add':'+','sub':'-','mul':'*','and':'&','or':'|','xor':'^'}[op]
                out.append('  %s = %s;' % (d, mask(I.ty, '(%s)(%s %s %s)' % (cty(I.ty), V(I.ty, I.a), c, V(I.ty, I.b)))))
            elif op in ('udiv','urem') and not (op == 'urem' and DIVREM_NARROW and ('udiv', repr(I.ty), I.a, I.b) in blk_divs and resolve(I.ty).bits == sizeof(I.ty) * 8):
                c = '/' if op == 'udiv' else '%'
                bz = V(I.ty, I.b)
                e = '(%s)(%s %s %s)' % (cty(I.ty), V(I.ty, I.a), c, bz)
                if I.b[0] != 'int' or I.b[1] == 0: e = '%s == 0 ? ll_divzero_%s() : %s' % (bz, cty(I.ty), e)
                out.append('  %s = %s;' % (d, e))
                if op == 'udiv' and DIVREM_NARROW: blk_divs[('udiv', repr(I.ty), I.a, I.b)] = d
            elif op in ('sdiv','srem') and DIVREM_NARROW and resolve(I.ty).bits == sizeof(I.ty) * 8:
                # opt-in (--divrem-narrow): same-width signed division instead of the double-width one (same values: MIN / -1
                # still wraps to MIN, MIN % -1 is 0); x % y directly after x / y in the same block reuses that quotient, so
                # the solver sees one divider circuit for the pair
                c = '/' if op == 'sdiv' else '%'
                bz = V(I.ty, I.b); az = V(I.ty, I.a)
                st = sty(sizeof(I.ty) * 8); ut = cty(I.ty)
                key = ('sdiv', repr(I.ty), I.a, I.b)
                if op == 'srem' and key in blk_divs:
                    e = '(%s)(%s - (%s)(%s * %s))' % (ut, az, ut, blk_divs[key], bz)
                else:
                    e = '(%s)((%s)%s %s (%s)%s)' % (ut, st, az, c, st, bz)
                    if I.b[0] != 'int' or (I.b[1] & ((1 << resolve(I.ty).bits) - 1)) == (1 << resolve(I.ty).bits) - 1:
                        minv = '((%s)1 << %d)' % (ut, resolve(I.ty).bits - 1)
                        e = '(%s == %s && %s == (%s)~(%s)0) ? %s : %s' % (az, minv, bz, ut, ut, minv if op == 'sdiv' else '(%s)0' % ut, e)
                    if I.b[0] != 'int' or I.b[1] == 0: e = '%s == 0 ? ll_divzero_%s() : (%s)' % (bz, ut, e)
                    if op == 'sdiv': blk_divs[key] = d
                out.append('  %s = %s;' % (d, e))
            elif op == 'urem' and DIVREM_NARROW and ('udiv', repr(I.ty), I.a, I.b) in blk_divs and resolve(I.ty).bits == sizeof(I.ty) * 8:
                out.append('  %s = (%s)(%s - (%s)(%s * %s));' % (d, cty(I.ty), V(I.ty, I.a), cty(I.ty), blk_divs[('udiv', repr(I.ty), I.a, I.b)], V(I.ty, I.b)))
            elif op in ('sdiv','srem'):
                c = '/' if op == 'sdiv' else '%'
                bz = V(I.ty, I.b); az = V(I.ty, I.a)
                w = sizeof(I.ty) * 8
                # computed in a wider signed type so that MIN / -1 is defined C; result truncated
                wide = 's128' if w == 64 else 's64'
                e = mask(I.ty, '(%s)((%s)%s %s (%s)%s)' % (cty(I.ty), wide, sext_expr(I.ty, az), c, wide, sext_expr(I.ty, bz)))
                if I.b[0] != 'int' or I.b[1] == 0: e = '%s == 0 ? ll_divzero_%s() : %s' % (bz, cty(I.ty), e)
                out.append('  %s = %s;' % (d, e))
            elif op in ('shl', 'lshr', 'ashr'):
                w = sizeof(I.ty) * 8
                wt = 'u32' if w < 32 else cty(I.ty)
                sh = V(I.ty, I.b)
                if I.b[0] == 'int':
                    shx = '%d' % I.b[1]
                    guard = None if I.b[1] < resolve(I.ty).bits else '0'
                else:
                    shx = '(%s & %d)' % (sh, w - 1); guard = '(%s < %d)' % (sh, resolve(I.ty).bits)
                if op == 'shl': e = '(%s)((%s)%s << %s)' % (cty(I.ty), wt, V(I.ty, I.a), shx)
                elif op == 'lshr': e = '(%s)((%s)%s >> %s)' % (cty(I.ty), wt, V(I.ty, I.a), shx)
                else: e = '(%s)(%s >> %s)' % (cty(I.ty), sext_expr(I.ty, V(I.ty, I.a)), shx)
                e = mask(I.ty, e)
                if guard == '0': e = 'll_undef_%s()' % cty(I.ty)
                elif guard: e = '%s ? %s : (%s)0' % (guard, e, cty(I.ty))
                out.append('  %s = %s;' % (d, e))
            elif op in ('fadd','fsub','fmul','fdiv'):
                c = {'fadd':'+','fsub':'-','fmul':'*','fdiv':'/'}[op]
                out.append('  %s = %s %s %s;' % (d, V(I.ty, I.a), c, V(I.ty, I.b)))
            elif op == 'frem':
                out.append('  %s = %s(%s, %s);' % (d, 'fmodf' if resolve(I.ty).k == 'float' else 'fmod', V(I.ty, I.a), V(I.ty, I.b)))
            elif op == 'fneg':
                out.append('  %s = -%s;' % (d, V(I.ty, I.a)))
            elif op == 'icmp':
                a = V(I.ty, I.a); bb = V(I.ty, I.b)
                rt = resolve(I.ty)
                if isinstance(rt, PtrTy):
                    if I.pred in ('eq', 'ne'):
                        e = '%s %s %s' % (a, '==' if I.pred == 'eq' else '!=', bb)
                    else:
                        c = {'ult':'<','ule':'<=','ugt':'>','uge':'>=','slt':'<','sle':'<=','sgt':'>','sge':'>='}[I.pred]
                        e = '(u64)%s %s (u64)%s' % (a, c, bb)
                        if PTRCMP_OFFSET: e = 'LL_PTRCMP(%s, %s, %s)' % (a, c, bb)
                else:
                    if I.pred in ('eq','ne'): e = '%s %s %s' % (a, '==' if I.pred == 'eq' else '!=', bb)
                    elif I.pred[0] == 'u':
                        c = {'ult':'<','ule':'<=','ugt':'>','uge':'>='}[I.pred]
                        e = '%s %s %s' % (a, c, bb)
                    else:
                        c = {'slt':'<','sle':'<=','sgt':'>','sge':'>='}[I.pred]
                        e = '%s %s %s' % (sext_expr(I.ty, a), c, sext_expr(I.ty, bb))
                out.append('  %s = (%s);' % (d, e))
            elif op == 'fcmp':
                a = V(I.ty, I.a); bb = V(I.ty, I.b)
                out.append('  %s = (%s);' % (d, fcmp_expr(I.pred, a, bb)))
            elif op in ('trunc',):
                out.append('  %s = %s;' % (d, mask(I.ty, '(%s)%s' % (cty(I.ty), V(I.fty, I.a)))))
            elif op == 'zext':
                out.append('  %s = (%s)%s;' % (d, cty(I.ty), V(I.fty, I.a)))
            elif op == 'sext':
                out.append('  %s = %s;' % (d, mask(I.ty, '(%s)%s' % (cty(I.ty), sext_expr(I.fty, V(I.fty, I.a))))))
            elif op in ('fptrunc','fpext'):
                out.append('  %s = (%s)%s;' % (d, cty(I.ty), V(I.fty, I.a)))
            elif op == 'fptoui':
                out.append('  %s = %s;' % (d, mask(I.ty, '(%s)%s' % (cty(I.ty), V(I.fty, I.a)))))
            elif op == 'fptosi':
                out.append('  %s = %s;' % (d, mask(I.ty, '(%s)(%s)%s' % (cty(I.ty), sty(sizeof(I.ty)*8), V(I.fty, I.a)))))
            elif op == 'uitofp':
                out.append('  %s = (%s)%s;' % (d, cty(I.ty), V(I.fty, I.a)))
            elif op == 'sitofp':
                out.append('  %s = (%s)%s;' % (d, cty(I.ty), sext_expr(I.fty, V(I.fty, I.a))))
            elif op == 'ptrtoint':
                if PTRCMP_OFFSET: out.append('  %s = (%s)LL_FLAT(%s);' % (d, cty(I.ty), V(I.fty, I.a)))
                else: out.append('  %s = (%s)(u64)%s;' % (d, cty(I.ty), V(I.fty, I.a)))
            elif op == 'inttoptr':
                out.append('  %s = (ptr_t)(u64)%s;' % (d, V(I.fty, I.a)))
            elif op == 'bitcast':
                ft = resolve(I.fty); tt = resolve(I.ty)
                if isinstance(ft, PtrTy) and isinstance(tt, PtrTy): out.append('  %s = %s;' % (d, V(I.fty, I.a)))
                else: out.append('  { union { %s a_; %s b_; } u_; u_.a_ = %s; %s = u_.b_; }' % (cty(I.fty), cty(I.ty), V(I.fty, I.a), d))  # union pun: __builtin_memcpy has no body under CBMC
            elif op == 'freeze':
                out.append('  %s = %s;' % (d, V(I.ty, I.a)))
            elif op == 'select':
                out.append('  %s = %s ? %s : %s;' % (d, V(*I.c), V(*I.a), V(*I.b)))
            elif op == 'alloca':
                out.append('  %s = (ptr_t)%s_mem;' % (d, d))
            elif op == 'load':
                lt = resolve(I.ty)
                if isinstance(lt, IntTy) and lt.bits > 8 and lt.bits % 8 == 0 and lt.bits not in (16, 32, 64, 128):
                    # iN with a store size that is not a power of two (i24, i40, ...): access exactly N/8 bytes (little endian)
                    out.append('  { u8* p_ = (u8*)%s; %s = %s; }' % (V(*I.p), d, ' | '.join('((%s)p_[%d] << %d)' % (cty(I.ty), k, 8 * k) for k in range(lt.bits // 8))))
                else:
                    out.append('  %s = %s;' % (d, mask(I.ty, '*(%s*)%s' % (cty(I.ty), V(*I.p)))))
            elif op == 'store':
                st = resolve(I.v[0])
                if isinstance(st, IntTy) and st.bits > 8 and st.bits % 8 == 0 and st.bits not in (16, 32, 64, 128):
                    out.append('  { %s t_ = %s; u8* p_ = (u8*)%s; %s }' % (cty(I.v[0]), V(*I.v), V(*I.p), ' '.join('p_[%d] = (u8)(t_ >> %d);' % (k, 8 * k) for k in range(st.bits // 8))))
                else:
                    out.append('  *(%s*)%s = %s;' % (cty(I.v[0]), V(*I.p), V(*I.v)))
            elif op == 'getelementptr':
                e = V(*I.base)
                t = I.sty; first = True; terms = []; coff = 0
                for (it, iv) in I.idx:
                    if first:
                        stride = sizeof(t); first = False
                        if iv[0] == 'int': coff += iv[1] * stride
                        else: terms.append('(s64)((u64)%s * %dULL)' % (sext_expr(it, V(it, iv)), stride))
                    else:
                        rt = resolve(t)
                        if isinstance(rt, StructTy):
                            offs, _ = layout(rt); coff += offs[iv[1]]; t = rt.els[iv[1]]
                        else:
                            stride = sizeof(rt.el); t = rt.el
                            if iv[0] == 'int': coff += iv[1] * stride
                            else: terms.append('(s64)((u64)%s * %dULL)' % (sext_expr(it, V(it, iv)), stride))
                if coff: terms.append('(s64)%d' % coff)
                out.append('  %s = %s%s;' % (d, e, ''.join(' + ' + x for x in terms)))
            elif op == 'call':
                emit_call(fe, I, out, d)
            elif op == 'extractvalue':
                e = V(*I.agg)
                out.append('  %s = %s%s;' % (d, e, ''.join('.f%d' % i for i in I.idx)))
            elif op == 'insertvalue':
                out.append('  %s = %s; %s%s = %s;' % (d, V(*I.agg), d, ''.join('.f%d' % i for i in I.idx), V(*I.v)))
            elif op == 'br':
                if I.cond is None:
                    out.append('  %s goto L_%s;' % (phi_moves(b['name'], I.targets[0]), cname(I.targets[0])))
                else:
                    out.append('  if (%s) { %s goto L_%s; } else { %s goto L_%s; }' % (
                        V(*I.cond), phi_moves(b['name'], I.targets[0]), cname(I.targets[0]),
                        phi_moves(b['name'], I.targets[1]), cname(I.targets[1])))
            elif op == 'switch':
                out.append('  switch (%s) {' % V(*I.v))
                for v, lb in I.cases:
                    out.append('    case %s: { %s goto L_%s; }' % (V(I.v[0], v), phi_moves(b['name'], lb), cname(lb)))
                out.append('    default: { %s goto L_%s; } }' % (phi_moves(b['name'], I.default), cname(I.default)))
            elif op == 'ret':
                out.append('  return%s;' % ('' if I.a is None else ' ' + V(I.ty, I.a)))
            elif op == 'unreachable':
                out.append('  ll_unreachable(); ' + ('return;' if isinstance(resolve(f.ret), VoidTy) else ''))
            else:
                raise Exception("emit %s" % op)
    out.append('}')
    return sig, '\n'.join(out)

def fcmp_expr(pr, a, bb):
    un = '(%s != %s || %s != %s)' % (a, a, bb, bb)
    base = {'eq':'==','ne':'!=','lt':'<','le':'<=','gt':'>','ge':'>='}
    if pr == 'true': return '1'
    if pr == 'false': return '0'
    if pr == 'ord': return '!%s' % un
    if pr == 'uno': return un
    if pr[0] == 'o': return '(!%s && %s %s %s)' % (un, a, base[pr[1:]], bb)
    return '(%s || %s %s %s)' % (un, a, base[pr[1:]], bb)

def emit_constrained(fe, I, out, d, cn, args, a):
    """llvm.experimental.constrained.* (a TU compiled with strict FP exception semantics, e.g. `#pragma clang fp exceptions(strict)`):
    same value as the plain instruction (default rounding mode assumed); with "fpexcept.strict" every arithmetic operation and every
    float -> integer conversion additionally carries the LL_CEFP_* obligations of ll_prelude.h (operations that gcc / clang refuse
    to evaluate in a constant expression, [expr.pre]/4). Returns False when the intrinsic is not one of these (generic handling)."""
    cb = cn.split('.')[0]
    metas = [m.group(1) for m in (re.search(r'"([^"]*)"', x) for x in getattr(I, 'meta', [])) if m]
    strict = 'fpexcept.strict' in metas
    rty = I.rty
    if cb in ('fadd', 'fsub', 'fmul', 'fdiv'):
        c = {'fadd':'+','fsub':'-','fmul':'*','fdiv':'/'}[cb]
        out.append('  %s = %s %s %s;' % (d, a[0], c, a[1]))
        if strict: out.append('  LL_CEFP_ARITH(%s, %s, %s, %d);' % (d, a[0], a[1], 1 if cb == 'fdiv' else 0))
        return True
    if cb == 'fmuladd':
        out.append('  { %s t_ = %s * %s;' % (cty(rty), a[0], a[1]))
        if strict: out.append('    LL_CEFP_ARITH(t_, %s, %s, 0);' % (a[0], a[1]))
        out.append('    %s = t_ + %s;' % (d, a[2]))
        if strict: out.append('    LL_CEFP_ARITH(%s, t_, %s, 0);' % (d, a[2]))
        out.append('  }')
        return True
    if cb == 'frem':
        out.append('  %s = %s(%s, %s);' % (d, 'fmodf' if resolve(rty).k == 'float' else 'fmod', a[0], a[1])); return True
    if cb in ('fcmp', 'fcmps'):
        out.append('  %s = (%s);' % (d, fcmp_expr(metas[0], a[0], a[1]))); return True
    if cb in ('fptrunc', 'fpext', 'uitofp'):
        out.append('  %s = (%s)%s;' % (d, cty(rty), a[0])); return True
    if cb == 'sitofp':
        out.append('  %s = (%s)%s;' % (d, cty(rty), sext_expr(args[0][0], a[0]))); return True
    if cb in ('fptosi', 'fptoui'):
        bits = resolve(rty).bits
        if strict:
            if cb == 'fptosi': lo, hi = '-0x1p%d' % (bits - 1) + (' - 1' if bits <= 32 else ''), '0x1p%d' % (bits - 1)
            else: lo, hi = '-1', '0x1p%d' % bits
            cmp_lo = '>' if (cb == 'fptoui' or bits <= 32) else '>='
            out.append('  LL_CEFP_CAST((double)%s %s %s && (double)%s < %s);' % (a[0], cmp_lo, lo, a[0], hi))
        if cb == 'fptosi': out.append('  %s = %s;' % (d, mask(rty, '(%s)(%s)%s' % (cty(rty), sty(sizeof(rty)*8), a[0]))))
        else: out.append('  %s = %s;' % (d, mask(rty, '(%s)%s' % (cty(rty), a[0]))))
        return True
    return False

def emit_call(fe, I, out, d):
    V = fe.val
    c = I.callee
    args = [(t, v) for t, v in I.args if v is not None]
    if c[0] == 'global' and c[1].startswith('@llvm.'):
        n = c[1][6:]
        a = [V(t, v) for t, v in args]
        if n.startswith('lifetime.') or n.startswith('dbg.') or n.startswith('experimental.noalias') or n.startswith('invariant.'): return
        if n.startswith('assume'): out.append('  ll_assume(%s);' % a[0]); return
        if n.startswith('memcpy.') or n.startswith('memmove.'):
            out.append('  ll_%s(%s, %s, %s);' % (n.split('.')[0], a[0], a[1], a[2])); return
        if n.startswith('memset.'): out.append('  ll_memset(%s, %s, %s);' % (a[0], a[1], a[2])); return
        if n == 'ubsantrap':
            kind = args[0][1][1] if args and args[0][1][0] == 'int' else -1
            out.append('  LL_UBSAN("ubsan:%s");' % UBSAN_KINDS.get(kind, 'kind%d' % kind)); return
        if n in ('trap', 'debugtrap'): out.append('  ll_trap();'); return
        if n.startswith('objectsize'): out.append('  %s = (%s)-1;' % (d, cty(I.rty))); return
        if n.startswith('prefetch') or n.startswith('donothing') or n.startswith('stacksave') or n.startswith('stackrestore') or n.startswith('annotation') or n.startswith('var.annotation'): 
            if d: out.append('  %s = 0;' % d)
            return
        if n.startswith('experimental.constrained.'):
            if emit_constrained(fe, I, out, d, n[len('experimental.constrained.'):], args, a): return
            n = n[len('experimental.constrained.'):]   # floor, sqrt, fma, ...: value as the plain intrinsic
        if n.startswith('fma.'):
            suf = 'f' if resolve(I.rty).k == 'float' else ''
            out.append('  %s = fma%s(%s, %s, %s);' % (d, suf, a[0], a[1], a[2])); return
        if n.startswith('is.fpclass'):
            suf = 'f' if resolve(args[0][0]).k == 'float' else 'd'
            out.append('  %s = ll_is_fpclass_%s(%s, %s);' % (d, suf, a[0], a[1])); return
        base = n.split('.')[0]
        ty = I.rty
        if base in ('umin','umax'):
            out.append('  %s = %s %s %s ? %s : %s;' % (d, a[0], '<' if base == 'umin' else '>', a[1], a[0], a[1])); return
        if base in ('smin','smax'):
            out.append('  %s = %s %s %s ? %s : %s;' % (d, sext_expr(ty, a[0]), '<' if base == 'smin' else '>', sext_expr(ty, a[1]), a[0], a[1])); return
        if base == 'abs':
            out.append('  %s = %s;' % (d, mask(ty, '(%s)(%s < 0 ? -(%s) : %s)' % (cty(ty), sext_expr(ty, a[0]), a[0], a[0])))); return
        if base in ('ctpop','ctlz','cttz','bswap'):
            out.append('  %s = ll_%s_%d(%s);' % (d, base, resolve(ty).bits, a[0])); return
        if base in ('fshl','fshr'):
            out.append('  %s = ll_%s_%d(%s,%s,%s);' % (d, base, resolve(ty).bits, a[0], a[1], a[2])); return
        if base in ('floor','ceil','trunc','round','rint','nearbyint','fabs','sqrt','roundeven'):
            suf = 'f' if resolve(ty).k == 'float' else ''
            out.append('  %s = %s%s(%s);' % (d, base, suf, a[0])); return
        if base in ('copysign','minnum','maxnum'):
            suf = 'f' if resolve(ty).k == 'float' else ''
            nm = {'copysign':'copysign','minnum':'fmin','maxnum':'fmax'}[base]
            out.append('  %s = %s%s(%s,%s);' % (d, nm, suf, a[0], a[1])); return
        if base == 'fmuladd':
            out.append('  %s = %s * %s + %s;' % (d, a[0], a[1], a[2])); return
        if base in ('is', 'expect'):
            if n.startswith('is.constant'): out.append('  %s = 0;' % d); return
            out.append('  %s = %s;' % (d, a[0])); return
        m = re.fullmatch(r'([su])(add|sub|mul)\.with\.overflow\.i(\d+)', n)
        if m:
            out.append('  %s = ll_%s%s_ov_%s(%s, %s);' % (d, m.group(1), m.group(2), m.group(3), a[0], a[1]))
            need_ov.add((m.group(1), m.group(2), int(m.group(3)), cty(I.rty))); return
        m = re.fullmatch(r'([su])(add|sub)\.sat\.i(\d+)', n)
        if m:
            out.append('  %s = ll_%s%s_sat_%s(%s, %s);' % (d, m.group(1), m.group(2), m.group(3), a[0], a[1])); return
        raise Exception("intrinsic %s" % n)
    if c[0] == 'global' and c[1] in ('@vf_assert', '@vf_assume', '@vf_witness', '@vf_cover'):
        msg = 'vf'
        if len(args) > 1:
            mv = args[1][1]
            if mv[0] == 'gepc': mv = mv[2][0][1]
            if mv[0] == 'global' and mv[1] in M.globals and M.globals[mv[1]][1] and M.globals[mv[1]][1][0] == 'cstr':
                msg = M.globals[mv[1]][1][1].split(b'\0')[0].decode('latin1')
                msg = re.sub(r'[^ -~]', '?', msg).replace('\\', '/').replace('"', "'")
        nm = c[1][1:]
        if nm == 'vf_assert': out.append('  VF_ASSERT(%s, "%s");' % (V(*args[0]), msg))
        elif nm == 'vf_assume': out.append('  VF_ASSUME(%s);' % V(*args[0]))
        elif nm == 'vf_witness':
            wm = 'end'
            if args:
                mv = args[0][1]
                if mv[0] == 'gepc': mv = mv[2][0][1]
                if mv[0] == 'global' and mv[1] in M.globals and M.globals[mv[1]][1] and M.globals[mv[1]][1][0] == 'cstr':
                    wm = re.sub(r'[^ -~]', '?', M.globals[mv[1]][1][1].split(b'\0')[0].decode('latin1')).replace('"', "'")
            out.append('  VF_WITNESS("VF_WITNESS:%s");' % wm)
        return
    a = ', '.join(V(t, v) for t, v in args)
    if c[0] == 'global':
        call = '%s(%s)' % (fname(c[1]), a)
    else:
        fty = '%s (*)(%s)' % (cty(I.rty), ', '.join(cty(t) for t, _ in args) or 'void')
        call = '((%s)%s)(%s)' % (fty, V(PtrTy(), c), a)
    if d: out.append('  %s = %s;' % (d, call))
    else: out.append('  %s;' % call)

need_ov = set()
UBSAN_KINDS = {0:'add_overflow',1:'builtin_unreachable',2:'cfi_check_fail',3:'divrem_overflow',4:'dynamic_type_cache_miss',
 5:'float_cast_overflow',6:'function_type_mismatch',7:'implicit_conversion',8:'invalid_builtin',9:'invalid_objc_cast',
 10:'load_invalid_value',11:'missing_return',12:'mul_overflow',13:'negate_overflow',14:'nullability_arg',15:'nullability_return',
 16:'nonnull_arg',17:'nonnull_return',18:'out_of_bounds',19:'pointer_overflow',20:'shift_out_of_bounds',21:'sub_overflow',
 22:'type_mismatch',23:'alignment_assumption',24:'vla_bound_not_positive'}


def collect_leaves(t, v, off, leaves, dyn, gn):
    """flatten initialiser v of type t at byte offset off into (off, ctype, size, expr) leaves.
    Leaves that are not C constant expressions go to dyn (run-time init statements)."""
    fe = FE(None)
    rt = resolve(t)
    k = v[0]
    if k in ('zero', 'undef'): return
    if k == 'cstr':
        for i, bch in enumerate(v[1]):
            if bch: leaves.append((off + i, 'u8', 1, '%d' % bch))
        return
    if k == 'agg':
        if isinstance(rt, StructTy):
            offs, _ = layout(rt)
            for (et, ev), o in zip(v[1], offs): collect_leaves(et, ev, off + o, leaves, dyn, gn)
        else:
            es = sizeof(rt.el)
            for i, (et, ev) in enumerate(v[1]): collect_leaves(et, ev, off + i * es, leaves, dyn, gn)
        return
    if k in ('int', 'float', 'fhex', 'null', 'global', 'gepc') or (k == 'castc' and v[1] in ('bitcast', 'addrspacecast')):
        if k == 'int' and v[1] == 0: return
        if k == 'null': return
        ct = cty(t)
        if ct == 'u128':
            x = v[1] & ((1 << 128) - 1)
            leaves.append((off, 'u64', 8, '%dULL' % (x & (2**64 - 1)))); leaves.append((off + 8, 'u64', 8, '%dULL' % (x >> 64)))
            return
        leaves.append((off, ct, sizeof(t), fe.val(t, v)))
        return
    dyn.append('  *(%s*)(%s + %d) = %s;' % (cty(t), gname(gn), off, fe.val(t, v)))

def emit_global(name, t, init, const, out, dyn):
    size = max(1, sizeof(t))
    sym = gsym(name)
    static = 'static ' if name in M.local_globals else ''
    leaves = []
    collect_leaves(t, init, 0, leaves, dyn, name)
    if not leaves:
        out.append('%s_Alignas(16) u8 %s[%d];' % (static, sym, size))
        return
    leaves.sort()
    fields = []; inits = []
    pos = 0; i = 0; fi = 0
    while i < len(leaves):
        off, ct, sz, ex = leaves[i]
        assert off >= pos, ("overlapping initialiser leaves", name)
        if off > pos:
            fields.append('u8 pad%d[%d];' % (fi, off - pos)); inits.append('{0}'); fi += 1
        # group run of contiguous same-type leaves
        j = i; run = []
        while j < len(leaves) and leaves[j][1] == ct and leaves[j][0] == off + (j - i) * sz:
            run.append(leaves[j][3]); j += 1
        if len(run) == 1:
            fields.append('%s f%d;' % (ct, fi)); inits.append(ex)
        else:
            fields.append('%s f%d[%d];' % (ct, fi, len(run))); inits.append('{' + ','.join(run) + '}')
        fi += 1
        pos = off + sz * len(run); i = j
    if pos < size:
        fields.append('u8 pad%d[%d];' % (fi, size - pos)); inits.append('{0}')
    out.append('%s_Alignas(16) struct __attribute__((packed)) { %s } %s = { %s };' % (static, ' '.join(fields), sym, ', '.join(inits)))

PRELUDE = '#include "ll_prelude.h"\n'

def main():
    global PREFIX, DIVREM_NARROW, PTRCMP_OFFSET
    import argparse
    ap = argparse.ArgumentParser()
    ap.add_argument('input'); ap.add_argument('--prefix', default='T'); ap.add_argument('-o', dest='out', default=None)
    ap.add_argument('--divrem-narrow', action='store_true')
    ap.add_argument('--ptrcmp-offset', action='store_true')
    a = ap.parse_args()
    PREFIX = a.prefix
    DIVREM_NARROW = a.divrem_narrow
    PTRCMP_OFFSET = a.ptrcmp_offset
    text = open(a.input).read()
    parse_module(text)
    bodies = []; sigs = []
    for name, f in M.funcs.items():
        sig, body = emit_func(f)
        sigs.append(sig + ';'); bodies.append(body)
    gl = []; dyn = []
    for name, (t, init, const) in M.globals.items():
        if init is None:
            gl.append('extern u8 %s[%d];' % (gsym(name), max(1, sizeof(t))))
        else:
            emit_global(name, t, init, const, gl, dyn)
    out = [PRELUDE]
    if PTRCMP_OFFSET:
        # flat address = integer value of the object's base + SIGNED offset (CBMC's own pointer->integer conversion truncates the offset field)
        out.append('#if defined(__CPROVER__) || defined(VF_CBMC)\nstatic inline u64 LL_FLAT(ptr_t p){ s64 off = __CPROVER_POINTER_OFFSET(p); ptr_t bp = p - off; return (u64)bp + (u64)off; }\n#else\n#define LL_FLAT(p) ((u64)(p))\n#endif\n#define LL_PTRCMP(a, op, b) (LL_FLAT(a) op LL_FLAT(b))')
    done = set()
    def decl_agg(key):
        nm, t = agg_types[key]
        if nm in done: return
        rt = resolve(t)
        els = rt.els if isinstance(rt, StructTy) else [rt.el] * rt.n
        for e in els:
            re_ = resolve(e)
            if isinstance(re_, (StructTy, ArrTy)):
                cty(e); decl_agg(repr(flat(e)))
        done.add(nm)
        out.append('struct %s { %s };' % (nm, ' '.join('%s f%d;' % (cty(e), i) for i, e in enumerate(els)) or 'char dummy;'))
        out.append('static inline struct %s undef_%s(void){ struct %s z; ll_undef_bytes((ptr_t)&z, sizeof z); return z; } static inline struct %s zero_%s(void){ struct %s z = {0}; return z; }' % (nm, nm, nm, nm, nm, nm))
    n_before = -1
    while n_before != len(agg_types):
        n_before = len(agg_types)
        for key in list(agg_types): decl_agg(key)
    for (sg, opn, bits, rty) in sorted(need_ov):
        T = 'u%d' % bits; S = 's%d' % bits; W = 's128' if bits == 64 else 's64'
        cop = {'add':'+','sub':'-','mul':'*'}[opn]
        if sg == 's':
            out.append('static inline %s ll_s%s_ov_%d(%s a, %s b){ %s r; %s w = (%s)(%s)a %s (%s)(%s)b; r.f0 = (%s)w; r.f1 = (w != (%s)(%s)r.f0); return r; }' % (rty, opn, bits, T, T, rty, W, W, S, cop, W, S, T, W, S))
        else:
            UW = 'u128' if bits == 64 else 'u64'
            out.append('static inline %s ll_u%s_ov_%d(%s a, %s b){ %s r; %s w = (%s)a %s (%s)b; r.f0 = (%s)w; r.f1 = (w != (%s)r.f0); return r; }' % (rty, opn, bits, T, T, rty, UW, UW, cop, UW, T, UW))
    for name, (ret, args, va) in M.decls.items():
        if name.startswith('@llvm.'): continue
        if name in ('@vf_assert', '@vf_assume', '@vf_witness', '@vf_cover'): continue
        if name[1:] in LIBM_DECLS: continue
        out.append('%s %s(%s%s);' % (cty(ret), fname(name), ', '.join(cty(t) for t in args) or ('void' if not va else ''), ', ...' if va and args else ''))
    out.extend(sigs)
    out.extend(gl)
    out.append('void ll_init_%s(void) {\n%s\n}' % (PREFIX, '\n'.join(dyn)))
    out.extend(bodies)
    res = '\n'.join(out) + '\n'
    if a.out: open(a.out, 'w').write(res)
    else: sys.stdout.write(res)

LIBM_DECLS = {'floorf','ceilf','truncf','roundf','fabsf','rintf','nearbyintf','copysignf','fminf','fmaxf','sqrtf','fmodf','fmaf',
              'floor','ceil','trunc','round','fabs','rint','nearbyint','copysign','fmin','fmax','sqrt','fmod','fma',
              'lrintf','lrint','llrintf','llrint','lroundf','lround','llroundf','llround','remainderf','remainder','fdimf','fdim',
              'roundevenf','roundeven'}

if __name__ == '__main__':
    main()
