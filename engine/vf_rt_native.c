/* Native run-time support: replay of solver inputs and differential validation of the translator (DESIGN.md 1.7, 1.8). */
#include <stdio.h>
#include <stdlib.h>
#include <string.h>
#include <stdint.h>
#ifdef VF_TRANSLATED
#include "ll_rt_common.h"
#endif
static unsigned long long vf_inputs[4096]; static unsigned vf_nin, vf_pos; static int vf_loaded;
int vf_failed, vf_exhausted; static unsigned long long vf_hash = 1469598103934665603ULL;
static void vf_mix(unsigned long long v){ vf_hash = (vf_hash ^ v) * 1099511628211ULL; }
static void vf_load(void){
  vf_loaded = 1; const char* f = getenv("VF_INPUT"); if (!f) return; FILE* fp = fopen(f, "r"); if (!fp) return;
  unsigned long long v; while (vf_nin < 4096 && fscanf(fp, "%llu", &v) == 1) vf_inputs[vf_nin++] = v; fclose(fp);
}
static unsigned long long vf_next(void){ if (!vf_loaded) vf_load(); if (vf_pos < vf_nin) return vf_inputs[vf_pos++]; vf_exhausted = 1; return 0; }
uint8_t vf_nd_u8(void){ return (uint8_t)vf_next(); } uint16_t vf_nd_u16(void){ return (uint16_t)vf_next(); }
uint32_t vf_nd_u32(void){ return (uint32_t)vf_next(); } uint64_t vf_nd_u64(void){ return (uint64_t)vf_next(); }
float vf_nd_float(void){ uint32_t v = vf_nd_u32(); float f; memcpy(&f, &v, 4); return f; }
double vf_nd_double(void){ uint64_t v = vf_nd_u64(); double f; memcpy(&f, &v, 8); return f; }
void* vf_alloc(uint64_t n){ unsigned char* p = malloc(n); if (n && !p) abort(); if (n) memset(p, 0xCD, n); return p; }
void vf_finish(void){ printf("VF-HASH %016llx\n", vf_hash); fflush(stdout); }
void vf_assert_rt(int c, const char* msg){ vf_mix(c ? 1 : 2); if (!c) { vf_failed = 1; printf("VF-ASSERT-FAILED: %s\n", msg); fflush(stdout); } }
void vf_assume_rt(int c){ if (!c) { printf("VF-ASSUME-FALSE\n"); vf_finish(); exit(vf_failed ? 10 : 20); } }
void vf_witness_rt(const char* msg){ (void)msg; }
void vf_fatal_rt(const char* msg){ printf("VF-FATAL: %s\n", msg); vf_failed = 1; vf_finish(); exit(11); }
void vf_out(uint64_t v){ vf_mix(v); printf("VF-OUT %llu\n", (unsigned long long)v); }
#ifndef VF_TRANSLATED
void vf_assert(_Bool c, const char* msg){ vf_assert_rt(c, msg); }
void vf_assume(_Bool c){ vf_assume_rt(c); }
void vf_witness(const char* m){ (void)m; }
#else
u8 ll_undef_u8(void){ return 0; } u16 ll_undef_u16(void){ return 0; } u32 ll_undef_u32(void){ return 0; } u64 ll_undef_u64(void){ return 0; } u128 ll_undef_u128(void){ return 0; }
ptr_t ll_undef_ptr(void){ return 0; } float ll_undef_float(void){ return 0; } double ll_undef_double(void){ return 0; }
void ll_undef_bytes(ptr_t p, u64 n){ memset(p, 0, n); }
#define DZ(T) T ll_divzero_##T(void){ vf_fatal_rt("division by zero"); return 0; }
DZ(u8) DZ(u16) DZ(u32) DZ(u64) DZ(u128)
#endif
extern void VF_ENTRY(void);
int main(void){ VF_ENTRY(); vf_finish(); return vf_failed ? 10 : 0; }
