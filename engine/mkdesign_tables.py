#!/usr/bin/env python3
"""Regenerates the generated part of DESIGN.md section 8 (between the GENERATED markers) from known_findings.json,
seeded/*/meta.json and seeded/RESULTS.json."""
import json, os, re, subprocess
ROOT = os.path.dirname(os.path.dirname(os.path.abspath(__file__)))


def main():
    kf = json.load(open(os.path.join(ROOT, 'known_findings.json')))
    L = []
    L.append('### 8.2 Genuine defects found in /repo by the checks\n')
    L.append('Every entry was produced by a solver query, replayed natively against the real code and then either repaired in /repo')
    L.append('(one `fix:` commit each, the repository\'s 261 tests pass unedited after each) or kept as an open finding.\n')
    L.append('**Repaired (%d)**\n' % len(kf.get('fixed', [])))
    L.append('| property | commit | what failed |')
    L.append('|---|---|---|')
    for f in kf.get('fixed', []):
        m = re.match(r'fixed: property=(\S+) (\S+) (.*)', f)
        if m:
            L.append('| %s | %s | %s |' % (m.group(1), m.group(2), m.group(3).replace('|', '\\|')))
    L.append('\n**Open (%d)** - the check prints a `KNOWN-FINDING:` line for each, excludes exactly the stated region and still reports anything outside it\n' % len(kf.get('open', [])))
    L.append('| id | property | entry | what fails | why not repaired |')
    L.append('|---|---|---|---|---|')
    for k in kf.get('open', []):
        L.append('| %s | %s | %s/%s | %s | %s |' % (k['id'], k['property'], k.get('family'), k.get('entry'), k.get('what', '').replace('|', '\\|'), k.get('why_not_fixed', '').replace('|', '\\|')))
    # seeded
    sd = os.path.join(ROOT, 'seeded')
    res = {}
    if os.path.exists(os.path.join(sd, 'RESULTS.json')):
        res = json.load(open(os.path.join(sd, 'RESULTS.json')))
    L.append('\n### 8.3 Seeded changes and which check catches which\n')
    L.append('Each change was written by an independent sub-agent that saw only the property text and its own scratch worktree of /repo')
    L.append('(nothing from /verif); it compiles, passes the 261 existing tests and fails its own demonstration. Each was re-confirmed')
    L.append('by `engine/seedverify.py` (suite with the change: all pass; demonstration: fails with / passes without) and then run')
    L.append('against the registered quick check by `engine/seedtest.py`.\n')
    L.append('The changes named `-m4` come from a second round (session 2): one fresh sub-agent per property, told only the property')
    L.append('text and which three ideas were already taken, so that each targets a different function. No check had to be changed for')
    L.append('them. Two of them land on a function an earlier change of another property already touched (C17-m4 = the `reset_bit`')
    L.append('mask of C14-m3 seen through `bitset::reset(pos)`; C13-m4 = the `gcem::trunc` guard of C16-m3 seen as a constant-evaluation /')
    L.append('run-time disagreement): they are kept because they exercise a different check than the earlier one did. The round-2 runs')
    L.append('shared the 16 cores between up to three checks, so some of their queries timed out (`CHECK-ERROR timeout` lines in')
    L.append('`seeded/RESULTS.json`); a timeout is never counted as a detection - only a `VIOLATION` line with exit 1 is.\n')
    L.append('| seeded change | property | what it breaks / what it needs to manifest | quick check result | caught by (first violation) |')
    L.append('|---|---|---|---|---|')
    ids = sorted(d for d in os.listdir(sd) if os.path.isdir(os.path.join(sd, d))) if os.path.isdir(sd) else []
    det = 0
    for i in ids:
        meta = json.load(open(os.path.join(sd, i, 'meta.json')))
        r = res.get(i, {})
        chk = r.get('checks', {})
        first = ''
        status = 'not run'
        if chk:
            status = '; '.join('%s exit %s (%d violations)' % (p, v['exit'], v['violations']) for p, v in chk.items())
            for p, v in chk.items():
                if v.get('first'):
                    m = re.search(r'\[(\S+) (\S+) cfg=([^;]*);', v['first'])
                    first = '%s %s (%s)' % (m.group(1), m.group(2), m.group(3)) if m else v['first'][:80]
                    break
        if r.get('detected'):
            det += 1
        what = (meta.get('title', '') + ': ' + meta.get('needs_to_manifest', meta.get('what_breaks', '')))[:260].replace('|', '\\|').replace('\n', ' ')
        if meta.get('lead_note'):
            what += ' **Note:** ' + meta['lead_note'].replace('|', '\\|')
        L.append('| %s | %s | %s | %s | %s |' % (i, meta.get('property'), what, status, first.replace('|', '\\|')))
    L.append('\nDetected by the quick tier: %d of %d seeded changes.\n' % (det, len(ids)))
    # per-property families, bounds and assumptions as built (read from the spec.py files)
    import sys
    sys.path.insert(0, os.path.join(ROOT, 'engine'))
    import runner
    L.append('\n### 8.4 Families, bounds and assumptions per property (generated from harness/*/spec.py)\n')
    fams = []
    for n in runner.all_families():
        try:
            fams.append(runner.Family(n))
        except Exception as ex:
            L.append('* family %s: spec.py could not be loaded (%s)' % (n, ex))
    props = [json.loads(l)['id'] for l in open(os.path.join(ROOT, 'properties.jsonl'))]
    for pid in props:
        fs = [f for f in fams if pid in f.properties]
        if not fs:
            continue
        L.append('**%s** - families: %s\n' % (pid, ', '.join('`%s`' % f.name for f in fs)))
        for f in fs:
            if pid == 'C02' and f.properties and f.properties[0] != 'C02':
                continue   # for C02 the participating families run their own bounds with the UB build; listed under their property
            b = getattr(f.mod, 'BOUNDS', {})
            for tier in ('quick', 'thorough'):
                if b.get(tier):
                    L.append('* `%s` %s: %s' % (f.name, tier, str(b[tier]).replace('\n', ' ')))
            for a in getattr(f.mod, 'ASSUMPTIONS', []):
                L.append('  * assumption: %s' % str(a).replace('\n', ' '))
        if pid == 'C02':
            L.append('* C02 additionally runs the UB build (`ub=True, nofunc=True`) of: %s' % ', '.join('`%s`' % f.name for f in fs if f.properties and f.properties[0] != 'C02'))
        L.append('')
    L.append('### 8.5 Quick tier as last run on the repaired tree (from evidence/*.json)\n')
    L.append('| property | queries | UNSAT with reachable witness | wall s (16 cores) | solver s (sum) | translator-validation vectors | known findings confirmed |')
    L.append('|---|---|---|---|---|---|---|')
    import glob
    for f in sorted(glob.glob(os.path.join(ROOT, 'evidence', 'C*.json'))):
        e = json.load(open(f)); c = e['coverage']
        L.append('| %s | %d | %d | %.0f | %.0f | %d | %d |' % (e['property_id'], c.get('obligations', 0), c.get('discharged', 0), e.get('wall_s', 0), c.get('solver_seconds_total', 0), c.get('traces_validated_against_impl', 0), len(c.get('known_findings_confirmed', []))))
    L.append('')
    txt = '\n'.join(L)
    p = os.path.join(ROOT, 'DESIGN.md')
    s = open(p).read()
    b, e = '<!-- GENERATED-BEGIN -->', '<!-- GENERATED-END -->'
    if b not in s:
        s += '\n' + b + '\n' + e + '\n'
    s = s[:s.index(b) + len(b)] + '\n' + txt + '\n' + s[s.index(e):]
    open(p, 'w').write(s)
    print('DESIGN.md tables regenerated: %d fixed, %d open, %d seeded (%d detected)' % (len(kf.get('fixed', [])), len(kf.get('open', [])), len(ids), det))


if __name__ == '__main__':
    main()
