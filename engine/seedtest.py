#!/usr/bin/env python3
"""Runs the registered quick checks against the seeded changes kept under /verif/seeded/<id>/.

usage: seedtest.py [--in-repo] [--tier quick] [id ...]
  default: each patch is applied to a scratch worktree of /repo (under /tmp, removed afterwards) and the check is run
           with VF_REPO pointing at it - safe while other work uses /repo;
  --in-repo: apply to /repo itself (git -C /repo apply), run, undo (git -C /repo checkout -- .).
Writes seeded/RESULTS.json: per seeded change, which check exits 1 with a VIOLATION line.
"""
import json, os, subprocess, sys, time
ROOT = os.path.dirname(os.path.dirname(os.path.abspath(__file__)))
SEEDED = os.path.join(ROOT, 'seeded')


def run(cmd, **kw):
    return subprocess.run(cmd, stdout=subprocess.PIPE, stderr=subprocess.STDOUT, text=True, **kw)


def main():
    args = sys.argv[1:]
    in_repo = '--in-repo' in args
    tier = 'quick'
    if '--tier' in args:
        tier = args[args.index('--tier') + 1]
    extra = []
    if '--family' in args:
        extra = ['--family', args[args.index('--family') + 1]]
    ids = [a for a in args if not a.startswith('--') and a not in (tier,) and a not in extra]
    if not ids:
        ids = sorted(d for d in os.listdir(SEEDED) if os.path.isdir(os.path.join(SEEDED, d)))
    resp = os.path.join(SEEDED, 'RESULTS.json')
    results = json.load(open(resp)) if os.path.exists(resp) else {}
    for sid in ids:
        d = os.path.join(SEEDED, sid)
        meta = json.load(open(os.path.join(d, 'meta.json')))
        prop = meta['property']
        patch = os.path.join(d, 'patch.diff')
        t0 = time.time()
        if in_repo:
            st = run(['git', '-C', '/repo', 'status', '--porcelain', '--untracked-files=no']).stdout.strip()
            if st:
                print('refusing: /repo has local modifications:\n' + st)
                return 2
            r = run(['git', '-C', '/repo', 'apply', patch])
            repo = '/repo'
        else:
            repo = '/tmp/seedwt_%s_%d' % (sid, os.getpid())
            run(['git', '-C', '/repo', 'worktree', 'add', '--detach', repo, 'HEAD'])
            r = run(['git', '-C', repo, 'apply', patch])
        if r.returncode != 0:
            print('%s: patch does not apply: %s' % (sid, r.stdout[-300:]))
            results[sid] = {'property': prop, 'applied': False}
        else:
            env = dict(os.environ, VF_REPO=repo, VF_OUT_DIR=os.path.join('/tmp', 'seedout_%s' % sid))
            props = [prop] + meta.get('also_check', [])
            res = {}
            for p in props:
                c = run([os.path.join(ROOT, 'vf'), 'check', p, '--tier', tier] + extra, cwd=ROOT, env=env)
                viol = [l for l in c.stdout.splitlines() if l.startswith('VIOLATION')]
                errs = [l for l in c.stdout.splitlines() if l.startswith('CHECK-ERROR')]
                res[p] = {'exit': c.returncode, 'violations': len(viol), 'first': (viol[0][:400] if viol else ''), 'check_errors': errs[:3]}
                print('%s: check %s exit=%d violations=%d %s' % (sid, p, c.returncode, len(viol), (viol[0][:200] if viol else (errs[0][:200] if errs else ''))), flush=True)
            results[sid] = {'property': prop, 'applied': True, 'checks': res, 'detected': any(v['exit'] == 1 and v['violations'] > 0 for v in res.values()),
                            'tier': tier, 'seconds': round(time.time() - t0, 1)}
        if in_repo:
            run(['git', '-C', '/repo', 'checkout', '--', '.'])
        else:
            run(['git', '-C', '/repo', 'worktree', 'remove', '--force', repo])
        subprocess.run(['rm', '-rf', os.path.join('/tmp', 'seedout_%s' % sid)])
        # another seedtest may be running for other ids: merge into the file as it is now
        cur = json.load(open(resp)) if os.path.exists(resp) else {}
        cur[sid] = results[sid]
        results = cur
        json.dump(results, open(resp, 'w'), indent=1, sort_keys=True)
    det = sum(1 for v in results.values() if v.get('detected'))
    print('seeded changes detected: %d / %d' % (det, len(results)))
    return 0


if __name__ == '__main__':
    sys.exit(main())
