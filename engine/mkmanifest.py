#!/usr/bin/env python3
"""Regenerates MANIFEST.json from the table below and the harness families present."""
import json, os, sys
ROOT = os.path.dirname(os.path.dirname(os.path.abspath(__file__)))
sys.path.insert(0, os.path.join(ROOT, 'engine'))
import runner

TEXT = {
 'C08': ('every string_view search/compare/substr/copy overload decided against libstdc++ std::basic_string_view (itself translated through the same pipeline) for all characters and all 64-bit pos/count values at enumerated lengths; reads outside the exact-size blocks are CBMC dereference failures', '2 C08'),
}
NA = {
 'C15': 'type traits / concepts / numeric_limits / ratio are compile-time constants and types: there is no executable code to encode and the quantifier ranges over C++ types, which an SMT variable cannot (DESIGN.md section 3)',
}
PENDING = 'check under construction in this session; not claimed until its harness family is committed'

def main():
    props = [json.loads(l) for l in open(os.path.join(ROOT, 'properties.jsonl'))]
    fams = [runner.Family(n) for n in runner.all_families()]
    have = {p for f in fams for p in f.properties}
    checks = []; na = []
    for p in props:
        i = p['id']
        if i in have and i in TEXT:
            checks.append({
                'property_id': i,
                'quick_cmd': './vf check %s --tier quick' % i,
                'thorough_cmd': './vf check %s --tier thorough' % i,
                'evidence_file': 'evidence/%s.json' % i,
                'replay_cmd_template': './vf replay {path}',
                'engine': 'll2c+cbmc',
                'level_claimed': {'category': 'model_checking', 'text': 'bounded model checking of the real code: ' + TEXT[i][0], 'design_ref': 'DESIGN.md section ' + TEXT[i][1]},
                'level_note': 'trusted: clang++-16 -O1 IR, ll2c.py translation (diff-tested per run against g++), CBMC C semantics, SAT solver; bounds per family in evidence.coverage.bounds; claims hold only within those bounds',
                'technique': 'solver-based checking: clang LLVM-IR of the real headers -> C (ll2c) -> CBMC bounded model checking (SAT), counterexamples replayed natively under ASan/UBSan',
            })
        else:
            na.append({'property_id': i, 'reason': NA.get(i, PENDING)})
    m = {
        'version': 1,
        'setup_cmd': './vf selftest',
        'hooks': {'guard': 'TETL_VERIF', 'enable': 'no source hooks are needed: harness TUs include /repo/include directly (contract handler via the library\'s own TETL_ENABLE_CUSTOM_ASSERT_HANDLER)', 'baseline_off_cmd': 'cmake --build /repo/_build -j16 && ctest --test-dir /repo/_build -j8 --timeout 900', 'source_commits': [], 'add_only': True},
        'engines': [{'name': 'll2c+cbmc', 'path': 'engine/', 'serves_properties': sorted(c['property_id'] for c in checks), 'kind_free_text': 'own LLVM-IR->C translator (engine/ll2c.py) feeding CBMC 6.11 (minisat/cadical/kissat back ends); runner engine/runner.py'}],
        'checks': checks,
        'not_applicable': na,
        'notes': 'All checks rebuild from /repo working tree on every run. known_findings.json lists repaired defects (fixed:) and open findings.',
    }
    json.dump(m, open(os.path.join(ROOT, 'MANIFEST.json'), 'w'), indent=1)
    print('MANIFEST: %d checks, %d not claimed' % (len(checks), len(na)))

if __name__ == '__main__':
    main()
