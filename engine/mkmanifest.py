#!/usr/bin/env python3
"""Regenerates MANIFEST.json from the table below and the harness families present."""
import json, os, sys
ROOT = os.path.dirname(os.path.dirname(os.path.abspath(__file__)))
sys.path.insert(0, os.path.join(ROOT, 'engine'))
import runner

TEXT = {
 'C01': ('one symbolic operation from every symbolic (size, contents) state of static_vector / inplace_vector / stack compared with a sequence model, plus k-step symbolic histories and the six relational operators; capacities and pre-sizes enumerated, values/positions/counts symbolic', '2 C01'),
 'C02': ('the UB build (clang -fsanitize=...-trap) of the other families\' kernels with valid symbolic inputs: every load/store inside its exact-size object (CBMC pointer checks), no ubsan trap, no allocator call (static IR walk + assertion), default-initialised objects are empty for arbitrary storage bytes', '2 C02'),
 'C03': ('instrumented element type with a shadow life-state ledger shared between kernel and driver; construct-over-live, use-of-dead, double destroy and leaks are assertions decided for one symbolic operation from every state and for short symbolic histories', '2 C03'),
 'C04': ('one symbolic operation from every symbolic inplace_string state (all characters, all 64-bit pos/count) compared with a model / std::basic_string_view, and size()<=capacity() && data()[size()]==0 asserted after every operation; capacities on both sides of the tiny/normal layout boundary', '2 C04'),
 'C05': ('kernels built with TETL_ENABLE_CONTRACT_CHECKS(+_SAFE) and a custom assert handler: for each documented precondition, violated => the handler is reached before any out-of-object access and with the object unmodified; satisfied => the handler is unreachable; symbolic states and arguments', '2 C05'),
 'C06': ('each algorithm of algorithm.hpp / numeric.hpp compared with libstdc++ (translated through the same pipeline) or with a specification predicate (sorted + permutation + stability) on symbolic arrays of enumerated length', '2 C06'),
 'C07': ('one symbolic operation from every (state, value) of optional / variant / expected compared with std::optional / std::variant through the pipeline (tagged-union model for expected), relational operators and visit included, plus k-step histories', '2 C07'),
 'C08': ('every string_view search/compare/substr/copy overload decided against libstdc++ std::basic_string_view (itself translated through the same pipeline) for all characters and all 64-bit pos/count values at enumerated lengths; reads outside the exact-size blocks are CBMC dereference failures', '2 C08'),
 'C09': ('one symbolic operation from every sorted-unique symbolic set state (static_set, flat_set, flat_multiset) compared with a sorted-array model; the ordering invariant is re-established after every operation, so the step argument covers histories of any length', '2 C09'),
 'C10': ('to_chars/from_chars/strto*/ato*/sto*/to_integer compared with std::to_chars / std::from_chars through the pipeline and a reference parser: all values x all bases for 8/16-bit types, constant bases for wider types, all buffer lengths, symbolic input strings', '2 C10'),
 'C11': ('Gregorian successor step lemmas for civil_from_days / days_from_civil over the whole sys_days range plus anchor dates (induction inside the solver), ok()/weekday/last-day for all field values, arithmetic against std::chrono', '2 C11'),
 'C12': ('duration_cast/floor/ceil/round/abs and duration/time_point arithmetic against exact cross-multiplied rational inequalities in 128 bit and std::chrono through the pipeline, tick counts symbolic over the Rep range within the representable domain', '2 C12'),
 'C13': ('constant-evaluation path (forced with a macro in a second kernel TU) against the run-time path of every dual-path function for all arguments, and UB-freedom of the constant-evaluation path (UB there is a compile error in a constant expression)', '2 C13'),
 'C14': ('each bit/integer utility compared with its mathematical definition written independently (bit loops, __int128 arithmetic, libstdc++ <bit>/<numeric>/<utility>) for all values of the 8/16/32/64-bit instantiations', '2 C14'),
 'C16': ('the exact-result cmath functions (rounding family, sign/classification, fmin/fmax/fdim, nextafter ...) of the portable/gcem path compared bit-exactly with IEEE-754 predicates and CBMC\'s libm models for all float (double in thorough) bit patterns; approximating functions are outside the claim', '2 C16'),
 'C17': ('one symbolic operation from every symbolic bitset state (padding invariant assumed and re-established) compared with a bool-array model / std::bitset; observers independent of padding bits', '2 C17'),
 'C18': ('cctype/cwctype against a table dumped from the host C library at run time for every argument; cstring/cwchar functions (public entry and portable templates) against reference loops on symbolic exact-size buffers', '2 C18'),
 'C19': ('layout mappings against closed forms, in-bounds and injectivity for symbolic extents/indices; mdspan/mdarray/submdspan/span/array access against pointer arithmetic', '2 C19'),
 'C20': ('pair/tuple run-time behaviour against std::pair/std::tuple with symbolic elements; callable wrappers: exactly one call with the same argument values and the result returned unchanged; inplace_function one-step and k-step symbolic histories', '2 C20'),
}
NA = {
 'C15': 'type traits / concepts / numeric_limits / ratio are compile-time constants and types: there is no executable code to encode and the quantifier ranges over C++ types, which an SMT variable cannot (DESIGN.md section 3)',
}
# properties whose quick check has been run by the lead on the current tree and exits 0 (set grows during integration)
READY = {'C01', 'C02', 'C03', 'C04', 'C05', 'C06', 'C07', 'C08', 'C09', 'C10', 'C11', 'C12', 'C13', 'C14', 'C16', 'C17', 'C18', 'C19', 'C20'}
PENDING = 'check under construction in this session; not claimed until its harness family is committed'

def main():
    props = [json.loads(l) for l in open(os.path.join(ROOT, 'properties.jsonl'))]
    fams = [runner.Family(n) for n in runner.all_families()]
    have = {p for f in fams for p in f.properties}
    checks = []; na = []
    for p in props:
        i = p['id']
        if i in have and i in TEXT and i in READY:
            checks.append({
                'property_id': i,
                'quick_cmd': './vf check %s --tier quick' % i,
                'thorough_cmd': './vf check %s --tier thorough' % i,
                'evidence_file': 'evidence/%s.json' % i,
                'replay_cmd_template': './vf replay {path}',
                'engine': 'll2c+cbmc',
                'level_claimed': {'category': 'model_checking', 'text': 'bounded model checking of the real code: ' + TEXT[i][0], 'design_ref': 'DESIGN.md section ' + TEXT[i][1]},
                'level_note': 'trusted: clang++-16 -O1 IR, ll2c.py translation (diff-tested per run against g++), CBMC C semantics, SAT solver; bounds per family in evidence.coverage.bounds; claims hold only within those bounds',
                'technique': 'solver-based checking: clang LLVM-IR of the real headers -> C (ll2c) -> CBMC bounded model checking (SAT), counterexamples replayed natively under ASan/UBSan',
            })
        else:
            na.append({'property_id': i, 'reason': NA.get(i, PENDING)})
    m = {
        'version': 1,
        'setup_cmd': './vf selftest',
        'hooks': {'guard': 'TETL_VERIF', 'enable': 'no source hooks are needed: harness TUs include /repo/include directly (contract handler via the library\'s own TETL_ENABLE_CUSTOM_ASSERT_HANDLER)', 'baseline_off_cmd': 'cmake --build /repo/_build -j16 && ctest --test-dir /repo/_build -j8 --timeout 900', 'source_commits': [], 'add_only': True},
        'engines': [{'name': 'll2c+cbmc', 'path': 'engine/', 'serves_properties': sorted(c['property_id'] for c in checks), 'kind_free_text': 'own LLVM-IR->C translator (engine/ll2c.py) feeding CBMC 6.11 (minisat/cadical/kissat back ends); runner engine/runner.py'}],
        'checks': checks,
        'not_applicable': na,
        'notes': 'All checks rebuild from /repo working tree on every run. known_findings.json lists repaired defects (fixed:) and open findings.',
    }
    json.dump(m, open(os.path.join(ROOT, 'MANIFEST.json'), 'w'), indent=1)
    print('MANIFEST: %d checks, %d not claimed' % (len(checks), len(na)))

if __name__ == '__main__':
    main()
