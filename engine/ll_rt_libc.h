/* CBMC-only reference models of libc leaf functions (natively the real libc is used) */
/* libc leaf functions that libstdc++ / clang builtins lower to; reference loops written from the C standard */
ptr_t memchr(ptr_t s, u32 c, u64 n){ for(u64 i=0;i<n;i++) if(s[i]==(u8)c) return s+i; return 0; }
u32 memcmp(ptr_t a, ptr_t b, u64 n){ for(u64 i=0;i<n;i++){ if(a[i]!=b[i]) return a[i]<b[i]? (u32)-1 : 1u; } return 0; }
u32 bcmp(ptr_t a, ptr_t b, u64 n){ return memcmp(a,b,n); }
u64 strlen(ptr_t s){ u64 n=0; while(s[n]) n++; return n; }
u32 strcmp(ptr_t a, ptr_t b){ u64 i=0; for(;;i++){ if(a[i]!=b[i]) return a[i]<b[i]? (u32)-1 : 1u; if(!a[i]) return 0; } }
u32 strncmp(ptr_t a, ptr_t b, u64 n){ for(u64 i=0;i<n;i++){ if(a[i]!=b[i]) return a[i]<b[i]? (u32)-1 : 1u; if(!a[i]) return 0; } return 0; }
ptr_t strchr(ptr_t s, u32 c){ for(u64 i=0;;i++){ if(s[i]==(u8)c) return s+i; if(!s[i]) return 0; } }
ptr_t strrchr(ptr_t s, u32 c){ ptr_t r=0; for(u64 i=0;;i++){ if(s[i]==(u8)c) r=s+i; if(!s[i]) return r; } }
ptr_t memcpy(ptr_t d, ptr_t s, u64 n){ ll_memcpy(d,s,n); return d; }
ptr_t memmove(ptr_t d, ptr_t s, u64 n){ ll_memmove(d,s,n); return d; }
ptr_t memset(ptr_t d, u32 c, u64 n){ ll_memset(d,(u8)c,n); return d; }
u64 wcslen(ptr_t s){ u64 n=0; while(((u32*)s)[n]) n++; return n; }
ptr_t wmemchr(ptr_t s, u32 c, u64 n){ for(u64 i=0;i<n;i++) if(((u32*)s)[i]==c) return s+4*i; return 0; }
u32 wmemcmp(ptr_t a, ptr_t b, u64 n){ for(u64 i=0;i<n;i++){ s32 x=((s32*)a)[i], y=((s32*)b)[i]; if(x!=y) return x<y? (u32)-1 : 1u; } return 0; }
ptr_t wmemcpy(ptr_t d, ptr_t s, u64 n){ ll_memcpy(d,s,4*n); return d; }
ptr_t wmemmove(ptr_t d, ptr_t s, u64 n){ ll_memmove(d,s,4*n); return d; }
