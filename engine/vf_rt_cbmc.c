/* Run-time support under CBMC (DESIGN.md 1.2, 1.8). */
#include "ll_rt_common.h"
#include "ll_rt_libc.h"
u8 nondet_u8(void); u16 nondet_u16(void); u32 nondet_u32(void); u64 nondet_u64(void); u128 nondet_u128(void); float nondet_float(void); double nondet_double(void);
/* every driver input is also written to a marker global so the counterexample trace lists the inputs in draw order */
u8 vf_in8; u16 vf_in16; u32 vf_in32; u64 vf_in64;
u8 vf_nd_u8(void){ u8 v = nondet_u8(); vf_in8 = v; return v; }
u16 vf_nd_u16(void){ u16 v = nondet_u16(); vf_in16 = v; return v; }
u32 vf_nd_u32(void){ u32 v = nondet_u32(); vf_in32 = v; return v; }
u64 vf_nd_u64(void){ u64 v = nondet_u64(); vf_in64 = v; return v; }
float vf_nd_float(void){ union { u32 u; float f; } x; x.u = vf_nd_u32(); return x.f; }
double vf_nd_double(void){ union { u64 u; double f; } x; x.u = vf_nd_u64(); return x.f; }
ptr_t vf_alloc(u64 n){ ptr_t p = __CPROVER_allocate(n, 0); __CPROVER_assume(p != 0); return p; }
void vf_out(u64 v){ (void)v; }
/* CBMC's fma/fmaf models call feraiseexcept(FE_INVALID) for inf*0 / inf-inf; its built-in body asserts "floating-point exception". Floating-point exceptions are not observed by any harness: no-op */
int feraiseexcept(int e){ (void)e; return 0; }
u8 ll_undef_u8(void){ return nondet_u8(); } u16 ll_undef_u16(void){ return nondet_u16(); } u32 ll_undef_u32(void){ return nondet_u32(); }
u64 ll_undef_u64(void){ return nondet_u64(); } u128 ll_undef_u128(void){ return nondet_u128(); }
ptr_t ll_undef_ptr(void){ return (ptr_t)0; } float ll_undef_float(void){ return nondet_float(); } double ll_undef_double(void){ return nondet_double(); }
void ll_undef_bytes(ptr_t p, u64 n){ for (u64 i = 0; i < n; i++) p[i] = nondet_u8(); }
#define DZ(T) T ll_divzero_##T(void){ __CPROVER_assert(0, "division by zero"); __CPROVER_assume(0); return 0; }
DZ(u8) DZ(u16) DZ(u32) DZ(u64) DZ(u128)
/* dynamic allocation must never be reached from library code (C02). nothrow new returns null so that libstdc++ oracles take their no-buffer path */
ptr_t _Znwm(u64 n){ __CPROVER_assert(0, "dynamic allocator called: operator new"); __CPROVER_assume(0); return 0; }
ptr_t _Znam(u64 n){ __CPROVER_assert(0, "dynamic allocator called: operator new[]"); __CPROVER_assume(0); return 0; }
ptr_t _ZnwmRKSt9nothrow_t(u64 n, ptr_t t){ return 0; }
ptr_t _ZnamRKSt9nothrow_t(u64 n, ptr_t t){ return 0; }
void _ZdlPv(ptr_t p){ } void _ZdlPvm(ptr_t p, u64 n){ } void _ZdaPv(ptr_t p){ } void _ZdaPvm(ptr_t p, u64 n){ }
ptr_t malloc(u64 n){ __CPROVER_assert(0, "dynamic allocator called: malloc"); __CPROVER_assume(0); return 0; }
ptr_t calloc(u64 a, u64 b){ __CPROVER_assert(0, "dynamic allocator called: calloc"); __CPROVER_assume(0); return 0; }
ptr_t realloc(ptr_t p, u64 b){ __CPROVER_assert(0, "dynamic allocator called: realloc"); __CPROVER_assume(0); return 0; }
void free(ptr_t p){ __CPROVER_assert(0, "dynamic allocator called: free"); }
void exit(u32 c){ __CPROVER_assert(0, "exit() reached (default assert handler or library abort path)"); __CPROVER_assume(0); }
void abort(void){ __CPROVER_assert(0, "abort() reached"); __CPROVER_assume(0); }
void _ZSt9terminatev(void){ __CPROVER_assert(0, "std::terminate reached"); __CPROVER_assume(0); }
void __cxa_pure_virtual(void){ __CPROVER_assert(0, "pure virtual call"); __CPROVER_assume(0); }
#define THROWFN(name) void name(ptr_t m){ __CPROVER_assert(0, "libstdc++ oracle would throw: " #name); __CPROVER_assume(0); }
THROWFN(_ZSt20__throw_length_errorPKc) THROWFN(_ZSt19__throw_logic_errorPKc) THROWFN(_ZSt24__throw_invalid_argumentPKc) THROWFN(_ZSt20__throw_out_of_rangePKc)
void _ZSt24__throw_out_of_range_fmtPKcz(ptr_t m, ...){ __CPROVER_assert(0, "libstdc++ oracle would throw out_of_range"); __CPROVER_assume(0); }
void _ZSt26__throw_bad_variant_accessPKc(ptr_t m){ __CPROVER_assert(0, "libstdc++ oracle would throw bad_variant_access"); __CPROVER_assume(0); }
void _ZSt26__throw_bad_variant_accessb(u8 m){ __CPROVER_assert(0, "libstdc++ oracle would throw bad_variant_access"); __CPROVER_assume(0); }
void _ZSt27__throw_bad_optional_accessv(void){ __CPROVER_assert(0, "libstdc++ oracle would throw bad_optional_access"); __CPROVER_assume(0); }
void _ZSt25__throw_bad_function_callv(void){ __CPROVER_assert(0, "libstdc++ oracle would throw bad_function_call"); __CPROVER_assume(0); }
void _ZSt17__throw_bad_allocv(void){ __CPROVER_assert(0, "libstdc++ oracle would throw bad_alloc"); __CPROVER_assume(0); }
