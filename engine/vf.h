// Harness API shared by kernel.cpp / driver.cpp of every harness family (DESIGN.md 1.2).
// The same sources are (i) translated clang -> LLVM IR -> C -> CBMC and (ii) built natively with g++ for replay.
#ifndef VF_H
#define VF_H
#include <stdint.h>
#include <stddef.h>
extern "C" {
// symbolic inputs: a fresh solver variable under CBMC, the next recorded value in a native replay
uint8_t vf_nd_u8(void);
uint16_t vf_nd_u16(void);
uint32_t vf_nd_u32(void);
uint64_t vf_nd_u64(void);
float vf_nd_float(void);   // any bit pattern
double vf_nd_double(void); // any bit pattern
// an object of exactly n bytes (CBMC: its own object with bounds n, contents nondeterministic; native: malloc(n))
void* vf_alloc(uint64_t n);
void vf_assume(bool c);
void vf_assert(bool c, char const* what);
void vf_witness(char const* name); // must be reachable: reported as an error if it is not
void vf_out(uint64_t v);           // value logged natively (differential validation of the translator); no-op under CBMC
}
#define K extern "C" __attribute__((noinline))
#define Q extern "C" void

#ifdef VF_NO_FUNCTIONAL
// C02 runs: only UB / memory obligations inside library code count; the oracle comparison is switched off
static inline void vf_assert_nop(bool, char const*) {}
#define vf_assert(...) vf_assert_nop(__VA_ARGS__) /* variadic: conditions may contain top-level commas (braced initialisers) */
#endif

// Known-finding regions (DESIGN.md 1.9). VF_KF_<ID> is supplied by the runner: 0 = not listed (no effect),
// 1 = listed open: the region is excluded from this query, 2 = confirm query: restricted to the region.
#define VF_KNOWN(ID, cond)                                                                                             \
    do {                                                                                                               \
        if (VF_KF_##ID == 1) vf_assume(!(cond));                                                                       \
        else if (VF_KF_##ID == 2) vf_assume(cond);                                                                     \
    } while (0)

static inline uint8_t* vf_sym_bytes(uint64_t n)
{
    uint8_t* p = (uint8_t*)vf_alloc(n);
    for (uint64_t i = 0; i < n; i++) p[i] = vf_nd_u8();
    return p;
}
static inline int32_t vf_nd_i32(void) { return (int32_t)vf_nd_u32(); }
static inline int64_t vf_nd_i64(void) { return (int64_t)vf_nd_u64(); }
static inline int* vf_sym_ints(unsigned n)
{
    int* p = (int*)vf_alloc(uint64_t(n) * 4);
    for (unsigned i = 0; i < n; i++) p[i] = (int)vf_nd_u32();
    return p;
}
static inline int* vf_dup_ints(int const* s, unsigned n)
{
    int* p = (int*)vf_alloc(uint64_t(n) * 4);
    for (unsigned i = 0; i < n; i++) p[i] = s[i];
    return p;
}
#endif
