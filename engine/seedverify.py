#!/usr/bin/env python3
"""Confirms a seeded change independently: in a scratch worktree of /repo (built once, reused, under /tmp) it
(1) applies patch.diff, rebuilds the repository's test suite and runs ctest (all tests must pass),
(2) builds and runs the demonstration with the change (must fail) and without it (must pass).
usage: seedverify.py <incoming dir with patch.diff/demo.cpp/run.sh/meta.json> <seeded id>   -> copies to /verif/seeded/<id>/
       seedverify.py --cleanup
"""
import json, os, re, shutil, subprocess, sys
ROOT = os.path.dirname(os.path.dirname(os.path.abspath(__file__)))
WT = '/tmp/seedverify_wt'


def run(cmd, cwd=None, timeout=3600, shell=False):
    p = subprocess.run(cmd, cwd=cwd, stdout=subprocess.PIPE, stderr=subprocess.STDOUT, text=True, timeout=timeout, shell=shell)
    return p.returncode, p.stdout


def ensure_wt():
    if not os.path.exists(os.path.join(WT, '_build', 'build.ninja')):
        run(['git', '-C', '/repo', 'worktree', 'remove', '--force', WT])
        shutil.rmtree(WT, ignore_errors=True)
        rc, o = run(['git', '-C', '/repo', 'worktree', 'add', '--detach', WT, 'HEAD'])
        rc, o = run('cmake -G Ninja -B _build -DCMAKE_BUILD_TYPE=RelWithDebInfo -DBUILD_TESTING=ON -DCMAKE_CXX_FLAGS=-Wno-error > /dev/null && nice cmake --build _build -j8 | tail -1', cwd=WT, shell=True)
        print('scratch worktree built:', o.strip()[-100:])
    else:
        run(['git', '-C', WT, 'checkout', '--', '.'])
        head = run(['git', '-C', '/repo', 'rev-parse', 'HEAD'])[1].strip()
        run(['git', '-C', WT, 'checkout', '--detach', head])
        run('nice cmake --build _build -j8 | tail -1', cwd=WT, shell=True)


def demo_cmds(d):
    """g++ command lines from run.sh (lines that invoke g++), with include path rewritten to the worktree"""
    rs = os.path.join(d, 'run.sh')
    txt = open(rs).read() if os.path.exists(rs) else ''
    return txt


def build_and_run_demo(d, tag):
    exe = '/tmp/seedverify_demo_%s' % tag
    outs = []
    ok_all = True
    variants = [['-O1'], ['-O1', '-g', '-fsanitize=address,undefined', '-fno-sanitize-recover=undefined']]
    extra = []
    txt = demo_cmds(d)
    for m in re.findall(r'-D[A-Za-z0-9_=]+', txt):
        if m not in extra:
            extra.append(m)
    for v in variants:
        rc, o = run(['g++', '-std=c++20', '-w'] + v + extra + ['-I', os.path.join(WT, 'include'), os.path.join(d, 'demo.cpp'), '-o', exe])
        if rc != 0:
            outs.append('compile failed: ' + o[-400:])
            ok_all = False
            continue
        try:
            rc, o = run([exe], timeout=120)
        except subprocess.TimeoutExpired:
            rc, o = 124, 'timeout'
        outs.append('rc=%d %s' % (rc, o[-300:].replace('\n', ' | ')))
        if rc != 0:
            ok_all = False
    return ok_all, outs


def main():
    if sys.argv[1] == '--cleanup':
        run(['git', '-C', '/repo', 'worktree', 'remove', '--force', WT])
        shutil.rmtree(WT, ignore_errors=True)
        return 0
    src, sid = sys.argv[1], sys.argv[2]
    ensure_wt()
    meta = json.load(open(os.path.join(src, 'meta.json')))
    res = {}
    ok_clean, outs_clean = build_and_run_demo(src, 'clean')
    res['demo_without_change'] = {'passes': ok_clean, 'outputs': outs_clean}
    rc, o = run(['git', '-C', WT, 'apply', os.path.join(src, 'patch.diff')])
    if rc != 0:
        print('patch does not apply:', o)
        return 1
    rc, o = run('nice cmake --build _build -j8 2>&1 | tail -3', cwd=WT, shell=True)
    built = 'FAILED' not in o and 'error' not in o.lower()
    rc2, o2 = run('ctest --test-dir _build -j8 2>&1 | tail -3', cwd=WT, shell=True)
    m = re.search(r'(\d+)% tests passed, (\d+) tests failed out of (\d+)', o2)
    res['suite_with_change'] = {'builds': built, 'ctest': m.group(0) if m else o2[-200:]}
    ok_mut, outs_mut = build_and_run_demo(src, 'mut')
    res['demo_with_change'] = {'passes': ok_mut, 'outputs': outs_mut}
    run(['git', '-C', WT, 'checkout', '--', '.'])
    good = built and m and m.group(2) == '0' and int(m.group(3)) >= 261 and ok_clean and not ok_mut
    print(json.dumps(res, indent=1)[:3000])
    print('CONFIRMED' if good else 'NOT CONFIRMED', sid)
    if good:
        dst = os.path.join(ROOT, 'seeded', sid)
        os.makedirs(dst, exist_ok=True)
        for f in ('patch.diff', 'demo.cpp', 'run.sh'):
            if os.path.exists(os.path.join(src, f)):
                shutil.copy(os.path.join(src, f), os.path.join(dst, f))
        meta['confirmed_by_lead'] = {'ran': ['git apply patch.diff in scratch worktree', 'cmake --build _build && ctest (all %s tests)' % (m.group(3)),
                                             'g++ -std=c++20 demo.cpp with -O1 and with -fsanitize=address,undefined, with and without the change'], 'result': res}
        json.dump(meta, open(os.path.join(dst, 'meta.json'), 'w'), indent=1)
    return 0 if good else 1


if __name__ == '__main__':
    sys.exit(main())
