/* Reference models of LLVM intrinsics and libc leaf functions used by translated code.
   Included by both vf_rt_cbmc.c and vf_rt_native.c (DESIGN.md 1.11). */
#include "ll_prelude.h"
void ll_memcpy(ptr_t d, ptr_t s, u64 n) { for (u64 i = 0; i < n; i++) d[i] = s[i]; }
void ll_memmove(ptr_t d, ptr_t s, u64 n) { if ((u64)d <= (u64)s) { for (u64 i = 0; i < n; i++) d[i] = s[i]; } else { for (u64 i = n; i > 0; i--) d[i-1] = s[i-1]; } }
void ll_memset(ptr_t d, u8 c, u64 n) { for (u64 i = 0; i < n; i++) d[i] = c; }
#define DEFBITS(B,T) \
T ll_ctpop_##B(T x){ T c=0; for(int i=0;i<B;i++) c+=(x>>i)&1; return c; } \
T ll_ctlz_##B(T x){ T c=0; for(int i=B-1;i>=0;i--){ if((x>>i)&1) break; c++; } return c; } \
T ll_cttz_##B(T x){ T c=0; for(int i=0;i<B;i++){ if((x>>i)&1) break; c++; } return c; } \
T ll_fshl_##B(T a,T b,T s){ s%=B; return s? (T)(((T)(a<<s))|((T)(b>>(B-s)))) : a; } \
T ll_fshr_##B(T a,T b,T s){ s%=B; return s? (T)(((T)(a<<(B-s)))|((T)(b>>s))) : b; }
DEFBITS(8,u8) DEFBITS(16,u16) DEFBITS(32,u32) DEFBITS(64,u64)
#define DEFSAT(B,T,S,SMAX,SMIN) \
T ll_uadd_sat_##B(T a,T b){ T r=(T)(a+b); return r<a ? (T)~(T)0 : r; } \
T ll_usub_sat_##B(T a,T b){ return a<b ? (T)0 : (T)(a-b); } \
T ll_sadd_sat_##B(T a,T b){ S x=(S)a,y=(S)b; if(y>0&&x>SMAX-y) return (T)SMAX; if(y<0&&x<SMIN-y) return (T)SMIN; return (T)(x+y); } \
T ll_ssub_sat_##B(T a,T b){ S x=(S)a,y=(S)b; if(y<0&&x>SMAX+y) return (T)SMAX; if(y>0&&x<SMIN+y) return (T)SMIN; return (T)(x-y); }
DEFSAT(8,u8,s8,127,(-128)) DEFSAT(16,u16,s16,32767,(-32768)) DEFSAT(32,u32,s32,2147483647,(-2147483647-1)) DEFSAT(64,u64,s64,9223372036854775807LL,(-9223372036854775807LL-1))
u16 ll_bswap_16(u16 x){ return (u16)((x<<8)|(x>>8)); }
u32 ll_bswap_32(u32 x){ return (x<<24)|((x<<8)&0xff0000u)|((x>>8)&0xff00u)|(x>>24); }
u64 ll_bswap_64(u64 x){ return ((u64)ll_bswap_32((u32)x)<<32)|ll_bswap_32((u32)(x>>32)); }
/* llvm.is.fpclass mask bits: 0 sNaN,1 qNaN,2 -inf,3 -normal,4 -subnormal,5 -zero,6 +zero,7 +subnormal,8 +normal,9 +inf */
u8 ll_is_fpclass_f(float x, u32 m){ union { float f; u32 u; } p_; p_.f = x; u32 b = p_.u; u32 s=b>>31, e=(b>>23)&0xff, f=b&0x7fffff; u32 c;
  if(e==0xff) c = f ? ((f>>22)? 1u<<1 : 1u<<0) : (s? 1u<<2 : 1u<<9); else if(e==0) c = f ? (s? 1u<<4 : 1u<<7) : (s? 1u<<5 : 1u<<6); else c = s? 1u<<3 : 1u<<8; return (c&m)!=0; }
u8 ll_is_fpclass_d(double x, u32 m){ union { double f; u64 u; } p_; p_.f = x; u64 b = p_.u; u32 s=(u32)(b>>63), e=(u32)((b>>52)&0x7ff); u64 f=b&0xfffffffffffffULL; u32 c;
  if(e==0x7ff) c = f ? ((f>>51)? 1u<<1 : 1u<<0) : (s? 1u<<2 : 1u<<9); else if(e==0) c = f ? (s? 1u<<4 : 1u<<7) : (s? 1u<<5 : 1u<<6); else c = s? 1u<<3 : 1u<<8; return (c&m)!=0; }
