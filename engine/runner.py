#!/usr/bin/env python3
"""vf runner: builds harnesses from /repo's current tree, discharges solver queries, replays counterexamples,
applies the known-findings protocol and writes evidence (DESIGN.md 1.5-1.10)."""
import concurrent.futures as cf
import hashlib
import importlib.util
import json
import os
import random
import re
import resource
import shutil
import subprocess
import sys
import time

ROOT = os.path.dirname(os.path.dirname(os.path.abspath(__file__)))
ENGINE = os.path.join(ROOT, 'engine')
REPO = os.environ.get('VF_REPO', '/repo')
BUILD = os.path.join(ROOT, '.build')
OUT = os.environ.get('VF_OUT_DIR', ROOT)   # evidence/ and replay/ are written below this (seedtest.py redirects it)
CLANG = 'clang++-16'
NCPU = int(os.environ.get('VF_JOBS', str(os.cpu_count() or 8)))

CLANG_FLAGS = ['-std=c++20', '-O1', '-fno-vectorize', '-fno-slp-vectorize', '-fno-unroll-loops', '-fno-exceptions',
               '-fno-rtti', '-fno-threadsafe-statics', '-S', '-emit-llvm', '-Wno-everything']
UB_FLAGS = ['-fsanitize=signed-integer-overflow,shift,integer-divide-by-zero,bounds,null,bool,enum,unreachable,return,vla-bound,float-cast-overflow',
            '-fsanitize-trap=all']
CBMC_FLAGS = ['--unwinding-assertions', '--no-signed-overflow-check', '--no-undefined-shift-check',
              '--no-pointer-primitive-check', '--drop-unused-functions', '--no-malloc-may-fail', '--object-bits', '10',
              '--json-ui', '--trace']


def sh(cmd, timeout=None, cwd=None, env=None, mem_gb=None):
    def lim():
        if mem_gb:
            b = int(mem_gb * (1 << 30))
            resource.setrlimit(resource.RLIMIT_AS, (b, b))
        os.setsid()
    t0 = time.time()
    try:
        p = subprocess.Popen(cmd, stdout=subprocess.PIPE, stderr=subprocess.PIPE, cwd=cwd, env=env, preexec_fn=lim)
        try:
            o, e = p.communicate(timeout=timeout)
        except subprocess.TimeoutExpired:
            try:
                os.killpg(p.pid, 9)
            except Exception:
                p.kill()
            o, e = p.communicate()
            return -9, o.decode('latin1'), e.decode('latin1'), time.time() - t0, True
        return p.returncode, o.decode('latin1'), e.decode('latin1'), time.time() - t0, False
    except Exception as ex:  # pragma: no cover
        return -1, '', str(ex), time.time() - t0, False


def cfg_key(cfg):
    return ','.join('%s=%s' % (k, cfg[k]) for k in sorted(cfg))


def cfg_defs(cfg):
    out = []
    for k in sorted(cfg):
        v = cfg[k]
        out.append('-D%s=%s' % (k, v) if v is not None else '-D%s' % k)
    return out


class Family:
    def __init__(self, name):
        self.name = name
        self.dir = os.path.join(ROOT, 'harness', name)
        spec = importlib.util.spec_from_file_location('spec_' + name.replace('/', '_'), os.path.join(self.dir, 'spec.py'))
        self.mod = importlib.util.module_from_spec(spec)
        spec.loader.exec_module(self.mod)
        self.kernel = os.path.join(self.dir, getattr(self.mod, 'KERNEL', 'kernel.cpp'))
        self.driver = os.path.join(self.dir, getattr(self.mod, 'DRIVER', 'driver.cpp'))
        self.properties = getattr(self.mod, 'PROPERTIES', [])
        src = open(self.driver).read()
        self.kf_ids = sorted(set(re.findall(r'VF_KNOWN\(\s*([A-Za-z0-9_]+)', src)))
        self.kernel_flags = getattr(self.mod, 'KERNEL_FLAGS', [])
        # optional second kernel TU (also includes tetl; e.g. the same functions built with a different configuration macro)
        k2 = getattr(self.mod, 'KERNEL2', None)
        self.kernel2 = os.path.join(self.dir, k2) if k2 else None
        self.kernel2_flags = getattr(self.mod, 'KERNEL2_FLAGS', [])
        self.driver_flags = getattr(self.mod, 'DRIVER_FLAGS', [])
        self.ll2c_flags = getattr(self.mod, 'LL2C_FLAGS', [])   # optional translator options of this family (e.g. --divrem-narrow)


def all_families():
    out = []
    hd = os.path.join(ROOT, 'harness')
    for d in sorted(os.listdir(hd)):
        if os.path.exists(os.path.join(hd, d, 'spec.py')):
            out.append(d)
    return out


def load_findings():
    p = os.path.join(ROOT, 'known_findings.json')
    d = json.load(open(p)) if os.path.exists(p) else {'open': [], 'fixed': []}
    d.setdefault('open', [])
    d.setdefault('fixed', [])
    # staging area used while a harness family is being written; merged into known_findings.json at integration
    hd = os.path.join(ROOT, 'harness')
    have = {k['id'] for k in d['open']}
    for fam in sorted(os.listdir(hd)):
        kp = os.path.join(hd, fam, 'kf.json')
        if os.path.exists(kp):
            for k in json.load(open(kp)):
                if k['id'] not in have:
                    d['open'].append(k)
                    have.add(k['id'])
    return d


class Build:
    """one (family, cfg, ub, kf-modes, functional on/off) model: kernel.ll/driver.ll -> C -> goto binary"""

    def __init__(self, fam, cfg, ub, kf, nofunc, tag):
        self.fam, self.cfg, self.ub, self.kf, self.nofunc = fam, dict(cfg), ub, dict(kf), nofunc
        key = '%s|%s|%s|%s|%s' % (fam.name, cfg_key(cfg), ub, cfg_key(kf), nofunc)
        self.key = key
        self.dir = os.path.join(BUILD, tag, fam.name.replace('/', '_'), hashlib.sha1(key.encode()).hexdigest()[:12])
        self.ok = None
        self.err = ''
        self.entries = []
        self.funcs_encoded = []
        self.secs = 0.0

    def defs(self):
        d = cfg_defs(self.cfg)
        for i in self.fam.kf_ids:
            d.append('-DVF_KF_%s=%d' % (i, self.kf.get(i, 0)))
        if self.nofunc:
            d.append('-DVF_NO_FUNCTIONAL=1')
        return d

    def build(self):
        t0 = time.time()
        os.makedirs(self.dir, exist_ok=True)
        inc = ['-I' + os.path.join(REPO, 'include'), '-I' + ENGINE, '-I' + self.fam.dir]
        steps = []
        tus = [(self.fam.kernel, 'K', self.ub, self.fam.kernel_flags), (self.fam.driver, 'D', False, self.fam.driver_flags)]
        if self.fam.kernel2:
            tus.append((self.fam.kernel2, 'K2', self.ub, self.fam.kernel2_flags))
        for (src, pre, ub, extra) in tus:
            ll = os.path.join(self.dir, pre + '.ll')
            c = os.path.join(self.dir, pre + '.c')
            cmd = [CLANG] + CLANG_FLAGS + (UB_FLAGS if ub else []) + inc + self.defs() + list(extra) + [src, '-o', ll]
            rc, o, e, s, to = sh(cmd, timeout=300)
            if rc != 0:
                self.ok = False
                errs = [l for l in e.splitlines() if 'error' in l][:6]
                self.err = 'clang failed on %s: %s || cmd: %s' % (os.path.basename(src), ' | '.join(errs)[:1500], ' '.join(cmd))
                return self
            rc, o, e, s, to = sh([sys.executable, os.path.join(ENGINE, 'll2c.py'), ll, '--prefix', pre, '-o', c] + list(getattr(self.fam, 'll2c_flags', [])), timeout=300)
            if rc != 0:
                self.ok = False
                self.err = 'll2c failed on %s: %s' % (ll, e[-3000:])
                return self
        txt = open(os.path.join(self.dir, 'D.c')).read()
        self.entries = sorted(set(re.findall(r'^void (q_[A-Za-z0-9_]+)\(void\) \{', txt, re.M)))
        ktxt = open(os.path.join(self.dir, 'K.ll')).read()
        self.funcs_encoded = sorted(set(re.findall(r'^define [^@]*@("?[^"( ]+"?)\(', ktxt, re.M)))
        # allocator reachability (static, unbounded): any call to an allocator from kernel IR
        self.alloc_calls = sorted(set(re.findall(r'call [^@\n]*@(_Znwm|_Znam|malloc|calloc|realloc|free|aligned_alloc|_ZdlPv|_ZdaPv|_ZdlPvm)\(', ktxt)))
        k2 = bool(self.fam.kernel2)
        if k2:
            ktxt += open(os.path.join(self.dir, 'K2.ll')).read()
            self.funcs_encoded = sorted(set(re.findall(r'^define [^@]*@("?[^"( ]+"?)\(', ktxt, re.M)))
        main = ['#include "ll_prelude.h"', 'void ll_init_K(void); void ll_init_D(void);' + (' void ll_init_K2(void);' if k2 else '')]
        init = 'll_init_K(); ll_init_D();' + (' ll_init_K2();' if k2 else '')
        for en in self.entries:
            main.append('void %s(void);' % en)
            main.append('void vfmain_%s(void){ %s %s(); VF_WITNESS("VF_WITNESS:end"); }' % (en, init, en))
            main.append('void vfnw_%s(void){ %s %s(); }' % (en, init, en))
        open(os.path.join(self.dir, 'main.c'), 'w').write('\n'.join(main) + '\n')
        gb = os.path.join(self.dir, 'model.gb')
        cmd = ['goto-cc', '-DVF_CBMC=1', '-I' + ENGINE, os.path.join(self.dir, 'K.c'), os.path.join(self.dir, 'D.c'), os.path.join(self.dir, 'main.c'),
               os.path.join(ENGINE, 'vf_rt_cbmc.c'), '-o', gb] + ([os.path.join(self.dir, 'K2.c')] if k2 else [])
        rc, o, e, s, to = sh(cmd, timeout=300)
        if rc != 0 or not os.path.exists(gb):
            self.ok = False
            self.err = 'goto-cc failed: %s\n%s' % (' '.join(cmd), (o + e)[-3000:])
            return self
        self.ok = True
        self.secs = time.time() - t0
        return self


SMT_SOLVERS = {
    'cvc5int': ['cvc5', '--solve-bv-as-int=sum'],
    'cvc5': ['cvc5'],
    'z3': ['z3'],
}
SOLVER_FLAGS = {
    'minisat': [],
    'cadical': ['--sat-solver', 'cadical'],
    'kissat': ['--external-sat-solver', 'kissat'],
}


def parse_cbmc_json(out):
    try:
        d = json.loads(out)
    except Exception:
        return None
    res = None
    msgs = []
    for x in d:
        if isinstance(x, dict):
            if 'result' in x:
                res = x['result']
            if x.get('messageType') == 'ERROR':
                msgs.append(x.get('messageText', ''))
    return res, msgs


def inputs_from_trace(trace):
    vals = []
    for st in trace or []:
        if st.get('stepType') != 'assignment':
            continue
        lhs = st.get('lhs', '')
        m = re.fullmatch(r'vf_in(8|16|32|64)', lhs)
        if not m or not st.get('sourceLocation', {}).get('function', '').startswith('vf_nd_'):
            continue
        v = st.get('value', {})
        b = v.get('binary')
        if b is not None:
            vals.append(int(b, 2))
        else:
            dd = re.match(r'-?\d+', str(v.get('data', '0')))
            vals.append(int(dd.group(0)) & ((1 << int(m.group(1))) - 1) if dd else 0)
    return vals


class QueryResult:
    def __init__(self, q):
        self.q = q
        self.status = None  # ok | fail | vacuous | bound | timeout | error
        self.solver = None
        self.secs = 0.0
        self.failed = []    # list of (property id, description)
        self.inputs = None
        self.detail = ''
        self.nprops = 0
        self.replay = None
        self.confirmed = None


def run_query(b, q, mem_gb):
    r = QueryResult(q)
    if not b.ok:
        r.status = 'error'
        r.detail = 'build failed (see BUILD-ERROR): ' + b.err[:160]
        return r
    if q['entry'] not in b.entries:
        r.status = 'error'
        r.detail = 'entry %s not in driver (have %s)' % (q['entry'], ','.join(b.entries)[:300])
        return r
    solvers = q.get('solver', 'minisat')
    if isinstance(solvers, str):
        solvers = [solvers]
    budget = q.get('budget', 120)
    gb = os.path.join(b.dir, 'model.gb')
    base = ['cbmc', gb, '--function', 'vfmain_' + q['entry'], '--unwind', str(q.get('unwind', 8))]
    us = q.get('unwindset', {})
    if us:
        base += ['--unwindset', ','.join('%s:%d' % (k, v) for k, v in us.items())]
    flags = list(CBMC_FLAGS)
    if q.get('object_bits'):   # optional per-query override (queries that enumerate many paths address more than 2^10 objects)
        flags[flags.index('--object-bits') + 1] = str(q['object_bits'])
    base += flags + list(q.get('cbmc_flags', []))
    for sv in solvers:
        if sv in SMT_SOLVERS:
            # exported verification condition decided by an SMT solver; only an UNSAT answer is final (DESIGN.md 1.6)
            smt = os.path.join(b.dir, 'vc_%s_%d.smt2' % (q['entry'], os.getpid() * 1000 + random.randrange(1000)))
            cmd = [x for x in base if x not in ('--json-ui', '--trace')]
            cmd[cmd.index('vfmain_' + q['entry'])] = 'vfnw_' + q['entry']
            cmd += ['--smt2', '--outfile', smt]
            rc, o, e, s1, to = sh(cmd, timeout=budget, mem_gb=mem_gb)
            r.secs += s1
            if to or not os.path.exists(smt):
                r.status = 'timeout'; r.detail = 'VC export failed or timed out'; r.solver = sv
                continue
            rc, o, e, s2, to = sh(SMT_SOLVERS[sv] + [smt], timeout=q.get('smt_budget', budget), mem_gb=mem_gb)
            r.secs += s2
            try:
                os.unlink(smt)
            except OSError:
                pass
            first = (o.strip().splitlines() or [''])[0].strip()
            if to or first not in ('sat', 'unsat') or (first == 'unsat' and re.search(r'\(error(?! "Cannot get value)(?! "line \d+ column \d+: model is not available)', o)):
                r.status = 'timeout'; r.solver = sv
                r.detail = 'no verdict from %s (%s)' % (sv, 'timeout' if to else (first or e[-100:]))
                continue
            if first == 'sat':
                r.status = 'timeout'; r.solver = sv
                if not re.search(r'\(error', o):
                    r.smt_sat = sv
                r.detail = '%s reports a counterexample; re-solving with a SAT back end for the trace' % sv
                continue
            # unsat: all obligations hold; now the witness (reachability) with a SAT back end
            # (optional q['witness_solver']: SAT back end for this reachability query, default minisat)
            wcmd = base + ['--property', 'vfmain_%s.assertion.1' % q['entry']] + SOLVER_FLAGS.get(q.get('witness_solver', 'minisat'), [])
            rc, o, e, s3, to = sh(wcmd, timeout=budget, mem_gb=mem_gb)
            r.secs += s3
            r.solver = sv
            pr = parse_cbmc_json(o)
            if to or pr is None or pr[0] is None:
                r.status = 'timeout'; r.detail = 'witness query: no verdict'
                continue
            wit = [p for p in pr[0] if p.get('description', '').startswith('VF_WITNESS') and p.get('description', '')[11:] not in q.get('optional_witness', ())]
            r.nprops = len(pr[0])
            if wit and all(p.get('status') == 'FAILURE' for p in wit):
                r.status = 'ok'; r.detail = ''
            else:
                r.status = 'vacuous'; r.detail = 'witness not reachable (smt route)'
            return r
        cmd = base + SOLVER_FLAGS[sv]
        if q.get('lazy_trace'):
            # opt-in: decide without counterexample traces first (building a trace costs time proportional to the whole equation
            # for every reachable witness); only when an obligation fails is the query re-run with --trace for the inputs
            rc, o, e, s, to = sh([x for x in cmd if x != '--trace'], timeout=budget, mem_gb=mem_gb)
            pr0 = None if to else parse_cbmc_json(o)
            if to:
                pass   # no verdict within the budget: a second run with traces would not do better
            elif pr0 is not None and pr0[0] is not None and not any(p.get('status') == 'FAILURE' and not p.get('description', '').startswith('VF_WITNESS') for p in pr0[0]):
                pass   # nothing but witnesses failed: this run is the verdict
            else:
                r.secs += s
                rc, o, e, s, to = sh(cmd, timeout=budget, mem_gb=mem_gb)
        else:
            rc, o, e, s, to = sh(cmd, timeout=budget, mem_gb=mem_gb)
        r.secs += s
        r.solver = sv
        if to:
            r.status = 'timeout'
            r.detail = 'no verdict within %ds on %s' % (budget, sv)
            continue
        pr = parse_cbmc_json(o)
        if pr is None or pr[0] is None:
            r.status = 'error'
            r.detail = 'cbmc rc=%s: %s' % (rc, (pr[1] if pr else [])[:3] or (o[-800:] + e[-800:]))
            if 'std::bad_alloc' in e or 'Out of memory' in e or rc in (-9, 137, 134):
                r.status = 'timeout'
                r.detail = 'out of memory on %s' % sv
                continue
            return r
        props = pr[0]
        r.nprops = len(props)
        # q['optional_witness']: names of vf_witness() points that need not be reachable in this query (shared handler code, C05)
        wit = [p for p in props if p.get('description', '').startswith('VF_WITNESS') and p.get('description', '')[11:] not in q.get('optional_witness', ())]
        unw = [p for p in props if 'unwind' in p.get('property', '') and p.get('status') == 'FAILURE']
        bad = [p for p in props if p.get('status') == 'FAILURE' and not p.get('description', '').startswith('VF_WITNESS') and 'unwind' not in p.get('property', '')]
        if bad:
            r.status = 'fail'
            r.failed = [(p['property'], p.get('description', '')) for p in bad]
            # prefer the trace of a functional (vf) assertion over derived ones
            r.inputs = inputs_from_trace(bad[0].get('trace'))
            r.alltraces = [(p['property'], inputs_from_trace(p.get('trace'))) for p in bad[:4]]
        elif unw:
            r.status = 'bound'
            r.failed = [(p['property'], p.get('description', '')) for p in unw]
            r.inputs = inputs_from_trace(unw[0].get('trace'))
        elif not wit or any(p.get('status') != 'FAILURE' for p in wit):
            r.status = 'vacuous'
            r.detail = 'witness not reachable: ' + ', '.join(p.get('description', '') for p in wit if p.get('status') != 'FAILURE')
        else:
            r.status = 'ok'
        return r
    if getattr(r, 'smt_sat', None) and r.status == 'timeout':
        # an SMT back end found the negated obligations satisfiable but no SAT back end produced a trace within the budget:
        # this is a solver verdict "a counterexample exists" without concrete inputs (reported as an unconfirmed violation)
        r.status = 'fail'
        r.failed = [('smt', '%s: verification condition satisfiable (some obligation of this query fails); no trace within the budget' % r.smt_sat)]
        r.inputs = []
    return r


NATIVE_FLAGS = ['-std=c++20', '-O1', '-g', '-fsanitize=address,undefined,float-cast-overflow', '-fno-omit-frame-pointer', '-w']   # float-cast-overflow: part of UB_FLAGS, not of g++'s -fsanitize=undefined


def dispatch_source(entries, path, pre=''):
    """C file with vf_dispatch(): calls the entry named by $VF_ENTRY_NAME"""
    L = ['#include <string.h>', '#include <stdlib.h>', '#include <stdio.h>', pre]
    for en in entries:
        L.append('void %s(void);' % en)
    L.append('void vf_dispatch(void){ const char* n = getenv("VF_ENTRY_NAME"); if (!n) { puts("VF_ENTRY_NAME not set"); exit(3); }')
    for en in entries:
        L.append('  if (!strcmp(n, "%s")) { %s(); return; }' % (en, en))
    L.append('  puts("unknown entry"); exit(3); }')
    open(path, 'w').write('\n'.join(L) + '\n')


def driver_entries(fam):
    return sorted(set(re.findall(r'\bQ\s+(q_[A-Za-z0-9_]+)\s*\(', open(fam.driver).read())))


def native_build(b, entry, outdir):
    """g++ ASan/UBSan build of the same kernel.cpp + driver.cpp (replay, DESIGN.md 1.8); all entries, run-time dispatch"""
    os.makedirs(outdir, exist_ok=True)
    exe = os.path.join(outdir, 'replay_native')
    inc = ['-I' + os.path.join(REPO, 'include'), '-I' + ENGINE, '-I' + b.fam.dir]
    rt = os.path.join(outdir, 'rt.o')
    disp = os.path.join(outdir, 'dispatch.c')
    ents = b.entries or [entry]
    dispatch_source(ents, disp)
    rc, o, e, s, to = sh(['gcc', '-c', '-O1', '-g', '-fsanitize=address,undefined', '-DVF_ENTRY=vf_dispatch', os.path.join(ENGINE, 'vf_rt_native.c'), '-o', rt], timeout=120)
    if rc != 0:
        return None, 'rt compile failed: ' + e[-2000:]
    dobj = os.path.join(outdir, 'dispatch.o')
    sh(['gcc', '-c', '-O1', disp, '-o', dobj], timeout=120)
    rt = [rt, dobj]
    if b.fam.kernel2:
        k2o = os.path.join(outdir, 'k2.o')
        rc, o, e, s, to = sh(['g++'] + NATIVE_FLAGS + inc + b.defs() + ['-DVF_NATIVE=1'] + list(b.fam.kernel2_flags) + ['-c', b.fam.kernel2, '-o', k2o], timeout=600)
        if rc != 0:
            return None, 'native build of kernel2 failed: ' + e[-2000:]
        rt = rt + [k2o]
    ko = os.path.join(outdir, 'k.o')
    rc, o, e, s, to = sh(['g++'] + NATIVE_FLAGS + inc + b.defs() + ['-DVF_NATIVE=1'] + list(b.fam.kernel_flags) + ['-c', b.fam.kernel, '-o', ko], timeout=600)
    if rc != 0:
        return None, 'native build of kernel failed: ' + e[-3000:]
    cmd = ['g++'] + NATIVE_FLAGS + inc + b.defs() + ['-DVF_NATIVE=1'] + list(b.fam.driver_flags) + [ko, b.fam.driver] + rt + ['-o', exe]
    rc, o, e, s, to = sh(cmd, timeout=600)
    if rc != 0:
        return None, 'native build failed: ' + e[-3000:]
    return exe, ''


def native_run(exe, inputs, timeout=20, entry=None):
    inp = exe + '.in.%d' % os.getpid() + '.%d' % random.randrange(1 << 30)
    open(inp, 'w').write('\n'.join(str(v) for v in inputs) + '\n')
    env = dict(os.environ, VF_INPUT=inp, VF_ENTRY_NAME=entry or '', ASAN_OPTIONS='detect_leaks=0:abort_on_error=0:halt_on_error=1', UBSAN_OPTIONS='print_stacktrace=0')
    rc, o, e, s, to = sh([exe], timeout=timeout, env=env)
    try:
        os.unlink(inp)
    except OSError:
        pass
    reasons = []
    if to:
        reasons.append('native run did not terminate within %ds' % timeout)
    for l in o.splitlines():
        if l.startswith('VF-ASSERT-FAILED') or l.startswith('VF-FATAL'):
            reasons.append(l.strip())
    m = re.search(r'ERROR: AddressSanitizer: ([^\n]*)', e)
    if m:
        fr = re.findall(r'#\d+ 0x[0-9a-f]+ in ([^\n]*)', e)
        reasons.append('AddressSanitizer: ' + m.group(1)[:120] + (' in ' + fr[0][:160] if fr else ''))
    for m in re.finditer(r'([^\n:]*:\d+:\d+): runtime error: ([^\n]*)', e):
        reasons.append('UBSan: %s %s' % (m.group(1), m.group(2)))
        if len(reasons) > 6:
            break
    if rc not in (0, 10, 11, 20) and not reasons and not to:
        reasons.append('native run exit code %d: %s' % (rc, e[-300:].replace('\n', ' ')))
    return reasons, o, e


def validate_translation(b, entries, nvec, seed, outdir):
    """DESIGN.md 1.7(2): gcc build of the translated C vs g++ build of the original, same input vectors."""
    os.makedirs(outdir, exist_ok=True)
    n = 0
    diffs = []
    rng = random.Random(seed)
    inc = ['-I' + os.path.join(REPO, 'include'), '-I' + ENGINE, '-I' + b.fam.dir]
    ex_t = os.path.join(outdir, 'tr')
    ex_o = os.path.join(outdir, 'or')
    dt = os.path.join(outdir, 'dispatch_t.c')
    k2 = bool(b.fam.kernel2)
    dispatch_source(b.entries, dt, 'void ll_init_K(void); void ll_init_D(void); void ll_init_K2(void);')
    open(dt, 'a').write('void vf_native_entry(void){ ll_init_K(); ll_init_D(); %s vf_dispatch(); }\n' % ('ll_init_K2();' if k2 else ''))
    cmd = ['gcc', '-O1', '-w', '-fwrapv', '-fno-strict-aliasing', '-DVF_TRANSLATED=1', '-DVF_ENTRY=vf_native_entry', '-I' + ENGINE, os.path.join(b.dir, 'K.c'), os.path.join(b.dir, 'D.c')] + ([os.path.join(b.dir, 'K2.c')] if k2 else []) + [
           dt, os.path.join(ENGINE, 'vf_rt_native.c'), '-lm', '-lstdc++', '-o', ex_t]
    rc, o, e, s, to = sh(cmd, timeout=600)
    if rc != 0:
        return 0, ['translated C does not compile natively (%s): %s' % (cfg_key(b.cfg), e[-600:])]
    do = os.path.join(outdir, 'dispatch_o.c')
    dispatch_source(b.entries, do)
    rt = os.path.join(outdir, 'rto.o')
    sh(['gcc', '-c', '-O1', '-DVF_ENTRY=vf_dispatch', os.path.join(ENGINE, 'vf_rt_native.c'), '-o', rt], timeout=120)
    objs = []
    for (src, fl, nm) in [(b.fam.kernel, b.fam.kernel_flags, 'vk.o'), (b.fam.driver, b.fam.driver_flags, 'vd.o')] + ([(b.fam.kernel2, b.fam.kernel2_flags, 'vk2.o')] if k2 else []):
        ob = os.path.join(outdir, nm)
        rc, o, e, s, to = sh(['g++', '-std=c++20', '-O1', '-w'] + inc + b.defs() + ['-DVF_NATIVE=1'] + list(fl) + ['-c', src, '-o', ob], timeout=600)
        if rc != 0:
            return 0, ['original does not compile natively (%s): %s' % (cfg_key(b.cfg), e[-600:])]
        objs.append(ob)
    cmd = ['g++'] + objs + [rt, '-x', 'c', do, '-o', ex_o]
    rc, o, e, s, to = sh(cmd, timeout=600)
    if rc != 0:
        return 0, ['original does not compile natively (%s): %s' % (cfg_key(b.cfg), e[-600:])]
    for entry in entries:
        for i in range(nvec):
            small = rng.random() < 0.7
            vec = [(rng.randrange(0, 6) if small and rng.random() < 0.8 else rng.choice([0, 1, 2, 3, 0x7f, 0x80, 0xff, 0x7fffffff, 0x80000000, 0xffffffff, 2**63, 2**64 - 1, rng.randrange(2**64)])) for _ in range(128)]
            outs = []
            for ex in (ex_t, ex_o):
                inp = ex + '.in'
                open(inp, 'w').write('\n'.join(map(str, vec)) + '\n')
                rc, o, e, s, to = sh([ex], timeout=20, env=dict(os.environ, VF_INPUT=inp, VF_ENTRY_NAME=entry))
                outs.append((rc, o))
            n += 1
            if outs[0] != outs[1]:
                diffs.append('%s cfg=%s vec#%d: translated rc=%s out=%r vs original rc=%s out=%r' % (entry, cfg_key(b.cfg), i, outs[0][0], outs[0][1][-200:], outs[1][0], outs[1][1][-200:]))
    return n, diffs


def write_replay(prop, fam, q, b, r, idx):
    d = os.path.join(OUT, 'replay', prop)
    os.makedirs(d, exist_ok=True)
    name = '%s-%s-%s-%d.json' % (fam.name.replace('/', '_'), q['entry'], hashlib.sha1(b.key.encode()).hexdigest()[:8], idx)
    p = os.path.join(d, name)
    json.dump({'property': prop, 'family': fam.name, 'entry': q['entry'], 'cfg': b.cfg, 'ub': b.ub, 'kf': b.kf, 'nofunc': b.nofunc,
               'inputs': r.inputs or [], 'failed': r.failed[:8], 'solver': r.solver}, open(p, 'w'), indent=1)
    return os.path.relpath(p, OUT)


def do_replay(path):
    rp = json.load(open(os.path.join(OUT, path) if not os.path.isabs(path) else path))
    fam = Family(rp['family'])
    b = Build(fam, rp['cfg'], rp['ub'], rp.get('kf', {}), rp.get('nofunc', False), 'replay')
    out = os.path.join(BUILD, 'replay', 'native_' + hashlib.sha1(b.key.encode()).hexdigest()[:10])
    exe, err = native_build(b, rp['entry'], out)
    if not exe:
        print('replay build failed:', err)
        return 3
    reasons, o, e = native_run(exe, rp['inputs'], entry=rp['entry'])
    print('replay %s entry=%s cfg=%s inputs=%s' % (rp['family'], rp['entry'], cfg_key(rp['cfg']), rp['inputs']))
    print('solver reported:', '; '.join('%s (%s)' % (a, bb) for a, bb in rp['failed'][:4]))
    if reasons:
        print('REPRODUCED natively:', '; '.join(reasons[:6]))
        return 1
    print('not reproduced natively (stdout: %s)' % o[-300:].replace('\n', ' | '))
    return 0


def check(prop, tier, families=None, only_entry=None, verbose=False):
    t0 = time.time()
    seed = int(os.environ.get('VERIF_SEED', '0') or 0)
    tag = prop + '_' + tier + '_%d' % os.getpid()   # per-process build area: concurrent runs of the same check do not disturb each other
    try:
        for d_ in os.listdir(BUILD):
            m_ = re.fullmatch(r'.*_(\d+)', d_)
            if m_ and not os.path.exists('/proc/%s' % m_.group(1)):
                shutil.rmtree(os.path.join(BUILD, d_), ignore_errors=True)   # left behind by a killed run
    except OSError:
        pass
    shutil.rmtree(os.path.join(BUILD, tag), ignore_errors=True)
    shutil.rmtree(os.path.join(OUT, 'replay', prop), ignore_errors=True)
    fams = []
    for n in all_families():
        f = Family(n)
        if prop in f.properties and (not families or n in families):
            fams.append(f)
    if not fams:
        print('no harness family serves property %r (see ./vf with no arguments for usage)' % prop)
        return 2
    findings = load_findings()
    open_kf = {k['id']: k for k in findings.get('open', []) if k.get('property') == prop or prop in k.get('also', [])}
    qlist = []   # (fam, q, build)
    builds = {}

    def get_build(fam, cfg, ub, kf, nofunc):
        bb = Build(fam, cfg, ub, kf, nofunc, tag)
        if bb.key not in builds:
            builds[bb.key] = bb
        return builds[bb.key]

    mem_gb = float(os.environ.get('VF_MEM_GB', '8'))
    kf_confirm = []
    c02_sampled = {}
    for fam in fams:
        qs = fam.mod.queries(tier, prop) if fam.mod.queries.__code__.co_argcount >= 2 else fam.mod.queries(tier)
        kfmain = {i: (1 if i in open_kf else 0) for i in fam.kf_ids}
        qs_main = qs
        cap_ = int(os.environ.get('VF_C02_QUICK_CAP', '130'))
        if prop == 'C02' and tier == 'quick' and len(qs) > cap_ and not getattr(fam.mod, 'C02_NO_SAMPLING', False):
            # C02 quick re-runs the other families' grids with the UB build: keep it affordable by taking every k-th query of a
            # large family grid (deterministic; the thorough tier runs every query). Recorded in the evidence bounds.
            step_ = -(-len(qs) // cap_)
            groups_ = {}
            for q_ in qs:   # whole configurations are kept or dropped (each configuration is one build)
                groups_.setdefault(cfg_key(q_.get('cfg', {})), []).append(q_)
            if len(groups_) >= 2 * step_:
                qs_main = [q_ for gi_, g_ in enumerate(groups_.values()) if gi_ % step_ == 0 for q_ in g_]
            else:
                qs_main = qs[::step_]
            c02_sampled[fam.name] = (len(qs_main), len(qs))
        for q in qs_main:
            if only_entry and q['entry'] not in only_entry:
                continue
            if q.get('confirm_only'):   # configuration that lies wholly inside an open known-finding region: only its confirm query runs
                continue
            if q.get('kf_only') and q['kf_only'] in open_kf:
                continue   # same, decided by the runner: the query runs normally again once the finding is no longer listed open
            nofunc = bool(q.get('nofunc', False))
            bb = get_build(fam, q.get('cfg', {}), bool(q.get('ub', False)), kfmain, nofunc)
            qlist.append((fam, q, bb))
        for i in fam.kf_ids:
            if i in open_kf and open_kf[i].get('family') == fam.name:
                k = open_kf[i]
                kf = dict(kfmain)
                kf[i] = 2
                # confirm query: the entry/config recorded with the finding (first matching query supplies bounds)
                for q in qs:
                    if q['entry'] == k['entry'] and all(str(q.get('cfg', {}).get(a)) == str(v) for a, v in k.get('cfg', {}).items()):
                        q2 = dict(q)
                        bb = get_build(fam, q.get('cfg', {}), bool(q.get('ub', False)), kf, bool(q.get('nofunc', False)))
                        kf_confirm.append((fam, q2, bb, k))
                        break
                else:
                    print('NOTE: known finding %s has no matching query in tier %s (family %s)' % (i, tier, fam.name))
    print('[vf] %s %s: %d queries, %d known-finding confirm queries, %d builds, %d families' % (prop, tier, len(qlist), len(kf_confirm), len(builds), len(fams)), flush=True)
    with cf.ThreadPoolExecutor(NCPU) as ex:
        list(ex.map(lambda b_: b_.build(), builds.values()))
    bad_builds = [b_ for b_ in builds.values() if not b_.ok]
    for b_ in bad_builds[:5]:
        print('BUILD-ERROR %s cfg=%s: %s' % (b_.fam.name, cfg_key(b_.cfg), b_.err[:2000]))
    results = []
    kfresults = []
    with cf.ThreadPoolExecutor(NCPU) as ex:
        futs = {}
        for (fam, q, bb) in sorted(qlist, key=lambda x: -x[1].get('budget', 120)):
            futs[ex.submit(run_query, bb, q, mem_gb)] = (fam, q, bb, None)
        for (fam, q, bb, k) in kf_confirm:
            futs[ex.submit(run_query, bb, q, mem_gb)] = (fam, q, bb, k)
        done = 0
        for fu in cf.as_completed(futs):
            fam, q, bb, k = futs[fu]
            r = fu.result()
            done += 1
            if verbose or r.status not in ('ok',):
                if not (k and r.status == 'fail'):
                    print('  [%d/%d] %s %s cfg=%s -> %s %.1fs %s %s' % (done, len(futs), fam.name, q['entry'], cfg_key(bb.cfg), r.status, r.secs, r.solver, (r.detail or '; '.join(d for _, d in r.failed[:3]))[:300]), flush=True)
            (kfresults if k else results).append((fam, q, bb, r, k))
    # ---- counterexamples: replay natively
    violations = []
    infra = []
    nrep = 0
    static_viol = False
    native_cache = {}

    def replay_result(fam, q, bb, r):
        nonlocal nrep
        nrep += 1
        path = write_replay(prop, fam, q, bb, r, nrep)
        key = bb.key
        if key not in native_cache:
            native_cache[key] = native_build(bb, q['entry'], os.path.join(bb.dir, 'native'))
        exe, err = native_cache[key]
        if not exe:
            return path, None, ['native replay build failed: ' + err[-400:]]
        reasons, o, e = native_run(exe, r.inputs or [], entry=q['entry'])
        return path, bool(reasons), reasons

    max_replays = int(os.environ.get('VF_MAX_REPLAYS', '6'))
    for (fam, q, bb, r, k) in sorted(results, key=lambda x: (x[0].name, x[1]['entry'], cfg_key(x[2].cfg))):
        if r.status == 'ok':
            continue
        if r.status in ('fail', 'bound'):
            if len(native_cache) >= max_replays and bb.key not in native_cache and r.status == 'fail':
                nrep += 1
                r.replay = write_replay(prop, fam, q, bb, r, nrep)
                violations.append((fam, q, bb, r, ['native replay skipped (more than %d distinct configurations already replayed in this run; use ./vf replay)' % max_replays]))
                continue
            path, conf, reasons = replay_result(fam, q, bb, r)
            r.replay, r.confirmed = path, conf
            if r.status == 'bound' and not conf:
                infra.append('unwinding bound too small: %s %s cfg=%s %s' % (fam.name, q['entry'], cfg_key(bb.cfg), r.failed[:2]))
                continue
            violations.append((fam, q, bb, r, reasons))
        else:
            infra.append('%s: %s %s cfg=%s: %s' % (r.status, fam.name, q['entry'], cfg_key(bb.cfg), r.detail[:300]))
    # C02 obligation 3 (DESIGN.md 1.4): no dynamic allocator is called from library code - static walk over the whole kernel IR
    # (every function instantiated from the tetl headers by the kernels, all paths, no bound)
    if prop == 'C02':
        seen_alloc = set()
        for b_ in builds.values():
            if b_.ok and getattr(b_, 'alloc_calls', None) and b_.fam.name not in seen_alloc:
                seen_alloc.add(b_.fam.name)
                nrep += 1
                d_ = os.path.join(OUT, 'replay', prop)
                os.makedirs(d_, exist_ok=True)
                p_ = os.path.join(d_, 'allocator-%s.json' % b_.fam.name.replace('/', '_'))
                ktxt = open(os.path.join(b_.dir, 'K.ll')).read()
                sites = []
                cur = None
                for l in ktxt.splitlines():
                    m = re.match(r'^define [^@]*@("?[^"( ]+"?)\(', l)
                    if m:
                        cur = m.group(1)
                    if re.search(r'call [^@\n]*@(_Znwm|_Znam|malloc|calloc|realloc|free|aligned_alloc|_ZdlPv|_ZdaPv|_ZdlPvm)\(', l):
                        sites.append(cur)
                json.dump({'property': prop, 'family': b_.fam.name, 'kind': 'static', 'allocator_calls': b_.alloc_calls, 'in_functions': sorted(set(sites))[:20], 'cfg': b_.cfg}, open(p_, 'w'), indent=1)
                print('VIOLATION property=%s replay=%s  [static IR walk: kernel IR of family %s calls %s inside %s]' % (prop, os.path.relpath(p_, OUT), b_.fam.name, ','.join(b_.alloc_calls), ', '.join(sorted(set(sites))[:3])))
                static_viol = True
    # vacuity inside a fully-known region is acceptable: re-check handled by spec authors via separate configs
    kf_lines = []
    # native replay binaries of the confirm queries are independent of each other: build them in parallel
    kf_pre = {}
    for (fam, q, bb, r, k) in kfresults:
        if r.status == 'fail' and bb.key not in native_cache:
            kf_pre.setdefault(bb.key, (bb, q['entry']))
    if len(kf_pre) > 1:
        with cf.ThreadPoolExecutor(NCPU) as ex:
            for key, res in zip(kf_pre, ex.map(lambda a: native_build(a[0], a[1], os.path.join(a[0].dir, 'native')), kf_pre.values())):
                native_cache[key] = res
    for (fam, q, bb, r, k) in kfresults:
        if r.status == 'fail':
            path, conf, reasons = replay_result(fam, q, bb, r)
            kf_lines.append('KNOWN-FINDING: property=%s %s [%s; entry %s cfg %s; solver inputs %s; native: %s]' % (
                prop, k['what'], k['id'], q['entry'], cfg_key(bb.cfg), (r.inputs or [])[:12], ('; '.join(reasons[:2]) if conf else 'not reproduced natively')))
        elif r.status in ('ok', 'vacuous'):
            kf_lines.append('NOTE: known finding %s is no longer reproducible (query %s) - entry is stale' % (k['id'], r.status))
        else:
            infra.append('known-finding confirm query %s: %s %s' % (k['id'], r.status, r.detail[:200]))
    # ---- translator validation
    nval = 0
    vdiffs = []
    nvb = int(getattr(sys.modules[__name__], 'VALIDATE_BUILDS', 3 if tier == 'quick' else 6))
    vb = [b_ for b_ in builds.values() if b_.ok and not b_.ub][:0]
    seenf = {}
    for b_ in builds.values():
        if b_.ok and not b_.ub and not b_.nofunc and seenf.get(b_.fam.name, 0) < nvb and all(v != 2 for v in b_.kf.values()):
            seenf[b_.fam.name] = seenf.get(b_.fam.name, 0) + 1
            vb.append(b_)
    ventries = {}
    for (fam, q, bb, r, k) in results:
        ventries.setdefault(bb.key, [])
        if q['entry'] not in ventries[bb.key] and len(ventries[bb.key]) < (3 if tier == 'quick' else 6):
            ventries[bb.key].append(q['entry'])
    with cf.ThreadPoolExecutor(NCPU) as ex:
        fs = [ex.submit(validate_translation, b_, ventries.get(b_.key, []), 6 if tier == 'quick' else 16, seed + i, os.path.join(b_.dir, 'val')) for i, b_ in enumerate(vb)]
        for fu in fs:
            n, d = fu.result()
            nval += n
            vdiffs += d
    for d in vdiffs[:5]:
        infra.append('translator validation: ' + d[:500])
    # ---- report
    for l in kf_lines:
        print(l)
    for (fam, q, bb, r, reasons) in violations:
        print('VIOLATION property=%s replay=%s  [%s %s cfg=%s; %s; solver: %s; native: %s]' % (
            prop, r.replay, fam.name, q['entry'], cfg_key(bb.cfg), 'confirmed' if r.confirmed else ('replay skipped' if r.confirmed is None else 'confirmed=0 (not reproduced natively)'),
            '; '.join(d for _, d in r.failed[:3])[:300], '; '.join(reasons[:3])[:400]))
    for l in infra[:40]:
        print('CHECK-ERROR ' + l)
    if bad_builds:
        print('CHECK-ERROR %d builds failed' % len(bad_builds))
    # ---- evidence
    nq = len(results)
    nok = sum(1 for x in results if x[3].status == 'ok')
    samples = []
    slow_ = sorted(results, key=lambda x: -x[3].secs)[:3]
    for (fam, q, bb, r, k) in (results[:3] + slow_ + [x for x in results if x[3].status != 'ok'][:5]):
        samples.append({'family': fam.name, 'entry': q['entry'], 'cfg': bb.cfg, 'ub_build': bb.ub, 'unwind': q.get('unwind', 8), 'unwindset': q.get('unwindset', {}),
                        'solver': r.solver, 'seconds': round(r.secs, 2), 'verdict': r.status, 'properties_in_query': r.nprops,
                        'failed': r.failed[:3], 'inputs': (r.inputs or [])[:32], 'replay': r.replay})
    fams_cov = {}
    for (fam, q, bb, r, k) in results:
        fc = fams_cov.setdefault(fam.name, {'queries': 0, 'unsat': 0, 'entries': set(), 'configs': set(), 'solver_s': 0.0, 'max_s': 0.0, 'solvers': set()})
        fc['queries'] += 1
        fc['unsat'] += r.status == 'ok'
        fc['entries'].add(q['entry'])
        fc['configs'].add(cfg_key(bb.cfg))
        fc['solver_s'] += r.secs
        fc['max_s'] = max(fc['max_s'], r.secs)
        fc['solvers'].add(r.solver or '?')
    for fc in fams_cov.values():
        fc['entries'] = sorted(fc['entries'])
        fc['configs'] = sorted(fc['configs'])[:60]
        fc['solvers'] = sorted(fc['solvers'])
        fc['solver_s'] = round(fc['solver_s'], 1)
        fc['max_s'] = round(fc['max_s'], 1)
    funcs = sorted({f for b_ in builds.values() if b_.ok for f in b_.funcs_encoded})
    allocs = sorted({a for b_ in builds.values() if b_.ok for a in getattr(b_, 'alloc_calls', [])})
    bounds = {}
    for fam in fams:
        bounds[fam.name] = getattr(fam.mod, 'BOUNDS', {}).get(tier, getattr(fam.mod, 'BOUNDS', {}))
        if fam.name in c02_sampled:
            bounds[fam.name] = '[C02 quick: every k-th query of this grid, %d of %d] %s' % (c02_sampled[fam.name][0], c02_sampled[fam.name][1], bounds[fam.name])
    ev = {
        'property_id': prop, 'tier': tier, 'seed': seed, 'level': 'model_checking',
        'coverage': {
            'states': max(1, len({(x[0].name, cfg_key(x[2].cfg)) for x in results})),
            'transitions': max(1, nq),
            'traces_validated_against_impl': nval,
            'samples': samples or [{'note': 'no queries'}],
            'obligations': nq, 'discharged': nok,
            'evaluations': nq,
            'distinct_nontrivial': len({(x[0].name, x[1]['entry'], cfg_key(x[2].cfg), x[2].ub) for x in results if x[3].status == 'ok'}),
            'rule': 'one solver query per (harness family, entry, configuration); distinct = distinct triples; non-trivial = all obligations UNSAT and the witness at the end of the driver reachable (so the assumptions are satisfiable and the assertions are reached)',
            'exhaustive': False,
            'families': fams_cov,
            'bounds': bounds,
            'functions_encoded': funcs[:400], 'functions_encoded_count': len(funcs),
            'allocator_calls_in_kernel_ir': allocs,
            'known_findings_confirmed': [l for l in kf_lines],
            'counterexamples_replayed': nrep,
            'solver_seconds_total': round(sum(x[3].secs for x in results), 1),
            'check_errors': infra[:20],
            'states_meaning': 'states = distinct (family, configuration) symbolic pre-state classes; transitions = solver queries (one symbolic operation or kernel call each)',
        },
        'assumptions': [
            'clang++-16 -O1 IR of the harness TU including /repo/include at its current state; translator ll2c.py validated per run against a g++ build on random vectors',
            'CBMC 6.11 C semantics, bounds/pointer checks on exact-size objects, unwinding assertions on; stated loop bounds per family',
            'documented preconditions of each operation assumed in the driver; stubs: operator new/malloc assert, nothrow new returns null, libc leaf functions modelled by reference loops',
        ] + [a for fam in fams for a in getattr(fam.mod, 'ASSUMPTIONS', [])],
        'wall_s': round(time.time() - t0, 1),
        'violations': len(violations) + (1 if static_viol else 0),
    }
    os.makedirs(os.path.join(OUT, 'evidence'), exist_ok=True)
    json.dump(ev, open(os.path.join(OUT, 'evidence', prop + '.json'), 'w'), indent=1, default=str)
    print('[vf] %s %s: %d/%d queries UNSAT-with-reachable-witness, %d violations, %d check errors, %d validation vectors, %.0fs' % (
        prop, tier, nok, nq, len(violations), len(infra) + len(bad_builds), nval, time.time() - t0), flush=True)
    if not os.environ.get('VF_KEEP'):
        shutil.rmtree(os.path.join(BUILD, tag), ignore_errors=True)
    if violations or static_viol:
        return 1
    if infra or bad_builds or nq == 0:
        return 3
    return 0


def main(argv):
    if len(argv) < 2:
        print('usage: vf check <Cxx> [--tier quick|thorough] [--family F] [--entry E] [-v] | vf replay <file> | vf selftest')
        return 2
    if argv[1] == 'check':
        prop = argv[2]
        tier = os.environ.get('VERIF_TIER') or 'quick'
        fams = []
        ents = []
        verbose = False
        i = 3
        while i < len(argv):
            if argv[i] == '--tier':
                tier = argv[i + 1]; i += 2
            elif argv[i] == '--family':
                fams.append(argv[i + 1]); i += 2
            elif argv[i] == '--entry':
                ents.append(argv[i + 1]); i += 2
            elif argv[i] == '-v':
                verbose = True; i += 1
            else:
                i += 1
        return check(prop, tier, fams or None, ents or None, verbose)
    if argv[1] == 'replay':
        return do_replay(argv[2])
    if argv[1] == 'selftest':
        ok = True
        for t in ('cbmc', 'goto-cc', CLANG, 'g++', 'gcc', 'kissat'):
            if not shutil.which(t):
                print('missing tool', t)
                ok = False
        import py_compile
        for f in os.listdir(ENGINE):
            if f.endswith('.py'):
                py_compile.compile(os.path.join(ENGINE, f), doraise=True)
        print('selftest', 'ok' if ok else 'FAILED')
        return 0 if ok else 1
    return 2


if __name__ == '__main__':
    sys.exit(main(sys.argv))
