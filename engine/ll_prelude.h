/* Prelude shared by every C file produced by ll2c.py (DESIGN.md 1.3). */
#ifndef LL_PRELUDE_H
#define LL_PRELUDE_H
typedef unsigned char u8; typedef unsigned short u16; typedef unsigned int u32; typedef unsigned long long u64; typedef unsigned __int128 u128;
typedef signed char s8; typedef short s16; typedef int s32; typedef long long s64; typedef __int128 s128;
typedef u8* ptr_t;
#if defined(__CPROVER__) || defined(VF_CBMC)
#define VF_ASSERT(c, msg) __CPROVER_assert((c), msg)
#define VF_ASSUME(c) __CPROVER_assume(c)
#define VF_WITNESS(msg) __CPROVER_assert(0, msg)
#define LL_UBSAN(msg) do { __CPROVER_assert(0, msg); __CPROVER_assume(0); } while (0)
#define ll_assume(c) ((void)0)   /* llvm.assume is never trusted */
#define ll_unreachable() do { __CPROVER_assert(0, "llvm unreachable reached"); __CPROVER_assume(0); } while (0)
#define ll_trap() do { __CPROVER_assert(0, "llvm.trap reached"); __CPROVER_assume(0); } while (0)
/* Floating-point operations that a constant expression may not contain ([expr.pre]/4: result not mathematically defined / not representable).
   Emitted by ll2c.py only for llvm.experimental.constrained.* with "fpexcept.strict", i.e. for TUs that ask for strict FP semantics
   (family ce_fp, C13: `#pragma clang fp exceptions(strict)` keeps every source-level operation). Measured with g++ 12 / clang++ 16:
   both reject x/0, inf-inf, 0*inf, 0/0 and out-of-range float->integer conversions; clang rejects every NaN result (also NaN operands);
   gcc rejects overflow to infinity. Exactly one obligation fails per operation (each stops the path). */
#define LL_CEFP_INF(x) ((double)(x) == __builtin_inf() || (double)(x) == -__builtin_inf())
#define LL_CEFP_ARITH(r, a, b, isdiv) do { \
    if ((isdiv) && (b) == 0) LL_UBSAN("constexpr-fp:division by zero (not a constant expression: gcc, clang)"); \
    if ((r) != (r) && (a) == (a) && (b) == (b)) LL_UBSAN("constexpr-fp:invalid operation, NaN from non-NaN operands (not a constant expression: gcc, clang)"); \
    if ((r) != (r)) LL_UBSAN("constexpr-fp:NaN operand gives a NaN result (not a constant expression: clang)"); \
    if (LL_CEFP_INF(r) && !LL_CEFP_INF(a) && !LL_CEFP_INF(b)) LL_UBSAN("constexpr-fp:overflow to infinity (not a constant expression: gcc)"); } while (0)
#define LL_CEFP_CAST(inrange) do { if (!(inrange)) LL_UBSAN("constexpr-fp:float to integer conversion out of range (not a constant expression: gcc, clang)"); } while (0)
#else
/* natively nothing is constant-evaluated: the obligations above exist in the solver model only */
#define LL_CEFP_ARITH(r, a, b, isdiv) ((void)0)
#define LL_CEFP_CAST(inrange) ((void)0)
void vf_assert_rt(int c, const char* msg); void vf_assume_rt(int c); void vf_witness_rt(const char* msg); void vf_fatal_rt(const char* msg);
#define VF_ASSERT(c, msg) vf_assert_rt((c), msg)
#define VF_ASSUME(c) vf_assume_rt(c)
#define VF_WITNESS(msg) vf_witness_rt(msg)
#define LL_UBSAN(msg) vf_fatal_rt(msg)
#define ll_assume(c) ((void)0)
#define ll_unreachable() vf_fatal_rt("llvm unreachable reached")
#define ll_trap() vf_fatal_rt("llvm.trap reached")
#endif
/* undefined / poison values: fresh nondeterministic value under CBMC (no body), fixed pattern natively */
u8 ll_undef_u8(void); u16 ll_undef_u16(void); u32 ll_undef_u32(void); u64 ll_undef_u64(void); u128 ll_undef_u128(void);
ptr_t ll_undef_ptr(void); float ll_undef_float(void); double ll_undef_double(void);
void ll_undef_bytes(ptr_t p, u64 n);
u8 ll_divzero_u8(void); u16 ll_divzero_u16(void); u32 ll_divzero_u32(void); u64 ll_divzero_u64(void); u128 ll_divzero_u128(void);
float floorf(float); float ceilf(float); float truncf(float); float roundf(float); float fabsf(float); float rintf(float); float nearbyintf(float); float copysignf(float,float); float fminf(float,float); float fmaxf(float,float); float sqrtf(float); float fmodf(float,float); float fmaf(float,float,float); float roundevenf(float);
double floor(double); double ceil(double); double trunc(double); double round(double); double fabs(double); double rint(double); double nearbyint(double); double copysign(double,double); double fmin(double,double); double fmax(double,double); double sqrt(double); double fmod(double,double); double fma(double,double,double); double roundeven(double);
long lrintf(float); long lrint(double); long long llrintf(float); long long llrint(double); long lroundf(float); long lround(double); long long llroundf(float); long long llround(double); float remainderf(float,float); double remainder(double,double); float fdimf(float,float); double fdim(double,double);
void ll_memcpy(ptr_t d, ptr_t s, u64 n); void ll_memmove(ptr_t d, ptr_t s, u64 n); void ll_memset(ptr_t d, u8 c, u64 n);
#define DECLBITS(B,T) T ll_ctpop_##B(T x); T ll_ctlz_##B(T x); T ll_cttz_##B(T x); T ll_fshl_##B(T a,T b,T s); T ll_fshr_##B(T a,T b,T s); \
  T ll_uadd_sat_##B(T a,T b); T ll_usub_sat_##B(T a,T b); T ll_sadd_sat_##B(T a,T b); T ll_ssub_sat_##B(T a,T b);
DECLBITS(8,u8) DECLBITS(16,u16) DECLBITS(32,u32) DECLBITS(64,u64)
u16 ll_bswap_16(u16 x); u32 ll_bswap_32(u32 x); u64 ll_bswap_64(u64 x);
u8 ll_is_fpclass_f(float x, u32 m); u8 ll_is_fpclass_d(double x, u32 m);
#endif
